"""C19 - spike trains survive text round-trips and imports unchanged."""
import os
import shutil
import tempfile
from decimal import Decimal
from itertools import product

import numpy as np

from mc.common import U, T0
from mc.runner import Result

ID = "C19"
TMPBASE = "/dev/shm" if os.path.isdir("/dev/shm") and os.access("/dev/shm", os.W_OK) else None
LEVEL = "exploration"

VALUES = [0.0, 0.5, 0.75, 1.0 / 3.0, 2.0 / 3.0 * 1e5, 1e-7, 123456.789012345, 2.0 ** -30,
          9.999999999999999e22, 2.2250738585072014e-308, 2.0 ** 1023, 7.0, 0.1]
SEPS = [" ", ",", ";", "\t"]
PRECS = [0, 1, 3, 8, 15, 16, 17]
COMMENTS = ["#", "%", "//"]
EDGES = [[0.0, 1.7e308], 1.7e308]      # pair and scalar form


def train_menu(tier):
    v = VALUES
    singles = [[x] for x in v]
    multi = [sorted([v[1], v[2]]), sorted([v[3], v[4], v[6]]), sorted([v[5], v[7], v[0]]),
             sorted([v[8], v[9], v[10]]), sorted([v[11], v[12], v[1], v[2]]), sorted(v)]
    if tier == "quick":
        return [[]] + singles[::2] + multi
    return [[]] + singles + multi


def plan(tier):
    menu = train_menu(tier)
    maxlen = 3 if tier == "quick" else 3
    nlists = sum(len(menu) ** n for n in range(1, maxlen + 1))
    nsh = 32
    tasks = [{"backend": "py", "mode": "roundtrip", "tier": tier, "maxlen": maxlen, "shard": s,
              "nshards": nsh} for s in range(nsh)]
    tasks.append({"backend": "py", "mode": "long"})
    tasks.append({"backend": "py", "mode": "timeseries", "rmax": 3, "cmax": 4 if tier == "quick" else 5})
    tasks.append({"backend": "py", "mode": "strings"})
    tasks.append({"backend": "py", "mode": "files"})
    return {
        "tasks": tasks,
        "bounds": {"roundtrip": {"train_menu": len(menu), "lists": nlists, "max_list_length": maxlen,
                                 "separators": SEPS, "precisions": PRECS,
                                 "ignore_empty_lines": [True, False], "edge_forms": ["pair", "scalar"],
                                 "chain": "save -> load -> save -> load"},
                   "long_trains": "round trips of trains with 999, 1000, 1001, 1500 and 5000 spikes",
                   "value_menu": VALUES,
                   "time_series": "all 0/1 matrices with r<=3 rows and c<=%d columns (incl. r=1, "
                                  "c=1) x 3 start/bin settings x separators"
                                  % (4 if tier == "quick" else 5),
                   "strings": "all orderings of up to 3 values x separators x sorted flag",
                   "files": "hand-written files with comment lines (3 comment strings), unsorted "
                            "lines and empty lines"},
        "rule": "operation histories save->load->save->load on every list of up to %d trains drawn "
                "from the train menu (empty, one-spike and multi-spike trains over the value menu: "
                "0, lattice points, non-terminating fractions, tiny/huge magnitudes incl. the "
                "largest power of two and the smallest normal double) x separators x precisions x "
                "ignore_empty_lines x edge forms; exhaustive 0/1 time-series matrices; "
                "non-trivial = list with at least one spike" % maxlen,
        "exhaustive": True,
        "assumptions": ["the quantifier 'all doubles' cannot be enumerated: spike values come from "
                        "the stated menu", "files live in a private temporary directory that is "
                        "removed at exit", "backend-independent code"],
        "explanation": "count and order of trains, each loaded value within half a unit of the last "
                       "printed digit of the original (exact decimal arithmetic), bit-identical for "
                       "precision >= 16, second round-trip a fixed point where decimal<->binary "
                       "round-trips are guaranteed; import = start+(k+1)*bin, edges "
                       "[start, start+c*bin]",
    }


def tol_ok(x, y, prec):
    """|y - x| <= half a unit of the last printed digit of x (prec digits after
    the leading one)"""
    if x == 0.0:
        return y == 0.0
    dx, dy = Decimal(x), Decimal(y)
    e = dx.adjusted()
    half = Decimal(5) * Decimal(10) ** (e - prec - 1)
    # the parsed double may itself be half an ulp off the printed decimal
    slack = abs(dx) * Decimal(2) ** -52
    return abs(dy - dx) <= half + slack


def roundtrip(r, d, lst, sep, prec, ignore, edges, rank):
    import pyspike as spk
    case = {"trains": lst, "separator": sep, "precision": prec, "ignore_empty_lines": ignore,
            "edges": edges}
    r.evaluations += 1
    r.traces += 1
    sts = [spk.SpikeTrain(t, edges) for t in lst]

    def viol(sub, exp, obs, msg):
        r.violation(ID, sub, "py", "%s/p%d" % (sub, prec) if sub == "values" else sub, case, exp,
                    obs, msg, rank)

    f1 = os.path.join(d, "a.txt")
    f2 = os.path.join(d, "b.txt")
    try:
        spk.save_spike_trains_to_txt(sts, f1, separator=sep, precision=prec)
        l1 = spk.load_spike_trains_from_txt(f1, edges, separator=sep, ignore_empty_lines=ignore)
        spk.save_spike_trains_to_txt(l1, f2, separator=sep, precision=prec)
        l2 = spk.load_spike_trains_from_txt(f2, edges, separator=sep, ignore_empty_lines=ignore)
    except Exception as e:
        viol("exception", "round trip succeeds", "%s: %s" % (type(e).__name__, e),
             "save/load raised")
        return
    exp = [t for t in lst if (t or not ignore)]
    got = [np.asarray(s.spikes, float).tolist() for s in l1]
    if len(got) != len(exp) or any(len(a) != len(b) for a, b in zip(got, exp)):
        viol("structure", [len(t) for t in exp], [len(t) for t in got],
             "number / order of trains or number of spikes per train not preserved")
        return
    for a, b in zip(got, exp):
        for y, x in zip(a, b):
            if prec >= 16:
                if y != x:
                    viol("values", x, y, "value not bit-identical at precision >= 16")
                    return
            elif not tol_ok(x, y, prec):
                viol("values", x, y, "loaded value differs from the original by more than half a "
                     "unit of the last requested digit")
                return
    te = edges[1] if isinstance(edges, list) else edges
    ts = edges[0] if isinstance(edges, list) else 0.0
    if any((s.t_start, s.t_end) != (ts, te) for s in l1):
        viol("edges", [ts, te], [[s.t_start, s.t_end] for s in l1],
             "loaded trains do not carry the given edges (scalar edge = [0, edge])")
        return
    got2 = [np.asarray(s.spikes, float).tolist() for s in l2]
    if prec != 15 and (got2 != got or (not ignore and open(f1).read() != open(f2).read())):
        viol("fixed_point", got, got2, "second round-trip changes the spike trains")
        return
    r.outcomes.add((prec, str(got)[:80]))


def run_roundtrip(task):
    r = Result()
    menu = train_menu(task["tier"])
    d = tempfile.mkdtemp(prefix="verif_c19_", dir=TMPBASE)
    try:
        idx = 0
        for n in range(1, task["maxlen"] + 1):
            for combo in product(range(len(menu)), repeat=n):
                idx += 1
                if idx % task["nshards"] != task["shard"]:
                    continue
                lst = [menu[i] for i in combo]
                r.states += 1
                if any(lst):
                    r.sigs.add(hash(combo))
                for si, sep in enumerate(SEPS):
                    for pi, prec in enumerate(PRECS):
                        # full product for the first separator, a rotating subset otherwise
                        if si and (pi + idx) % 3:
                            continue
                        for ignore in (True, False):
                            r.transitions += 4
                            roundtrip(r, d, lst, sep, prec, ignore,
                                      EDGES[(idx + pi) % 2], (n, sum(len(t) for t in lst), si, pi))
                if r.states % 97 == 1:
                    r.sample({"mode": "roundtrip", "trains": lst})
    finally:
        shutil.rmtree(d, ignore_errors=True)
    return r


def ts_case(r, d, M, start, tb, sepname):
    import pyspike as spk
    sep = None if sepname == "ws" else sepname
    rows, cols = len(M), len(M[0])
    bits = [b for row in M for b in row]
    r.transitions += 1
    r.evaluations += 1
    r.traces += 1
    f = os.path.join(d, "ts.txt")
    with open(f, "w") as fh:
        fh.write("# comment line\n")
        for row in M:
            fh.write((sep or " ").join(str(b) for b in row) + "\n")
    case = {"mode": "timeseries", "matrix": [list(row) for row in M], "start": start, "bin": tb,
            "separator": sepname}
    try:
        sts = spk.import_spike_trains_from_time_series(f, start, tb, separator=sep)
    except Exception as e:
        r.violation(ID, "timeseries.exception", "py",
                    "timeseries.exception/%s" % ("1row" if rows == 1 else
                                                 ("1col" if cols == 1 else "rxc")),
                    case, "spike trains", "%s: %s" % (type(e).__name__, e),
                    "import_spike_trains_from_time_series raised on a valid 0/1 matrix",
                    (rows, cols, sum(bits)))
        return
    exp = [[start + (k + 1) * tb for k, b in enumerate(row) if b] for row in M]
    got = [np.asarray(s.spikes, float).tolist() for s in sts]
    eds = [[s.t_start, s.t_end] for s in sts]
    ok = len(got) == rows and all(
        len(a) == len(b) and all(abs(p - q) <= 1e-12 for p, q in zip(a, b))
        for a, b in zip(got, exp)) and all(
        e[0] == start and abs(e[1] - (start + cols * tb)) <= 1e-12 for e in eds)
    if not ok:
        r.violation(ID, "timeseries", "py", "timeseries", case,
                    {"spikes": exp, "edges": [start, start + cols * tb]},
                    {"spikes": got, "edges": eds},
                    "imported trains are not start+(k+1)*bin for the non-zero samples on "
                    "[start, start+c*bin]", (rows, cols, sum(bits)))


def run_timeseries(task):
    import pyspike as spk
    r = Result()
    d = tempfile.mkdtemp(prefix="verif_c19_", dir=TMPBASE)
    settings = [(0.0, 1.0), (T0, U), (-2.0, 0.5)]
    try:
        for rows in range(1, task["rmax"] + 1):
            for cols in range(1, task["cmax"] + 1):
                for bits in product([0, 1], repeat=rows * cols):
                    M = [bits[i * cols:(i + 1) * cols] for i in range(rows)]
                    r.states += 1
                    if any(bits):
                        r.sigs.add(hash((rows, cols, bits)))
                    for (start, tb), (sepname, sep) in product(settings, [("ws", None), (",", ",")]):
                        ts_case(r, d, M, start, tb, sepname)
                        continue
                        f = os.path.join(d, "ts.txt")
                        with open(f, "w") as fh:
                            fh.write("# comment line\n")
                            for row in M:
                                fh.write((sep or " ").join(str(b) for b in row) + "\n")
                        case = {"mode": "timeseries", "matrix": M, "start": start, "bin": tb,
                                "separator": sepname}
                        try:
                            sts = spk.import_spike_trains_from_time_series(f, start, tb,
                                                                           separator=sep)
                        except Exception as e:
                            r.violation(ID, "timeseries.exception", "py",
                                        "timeseries.exception/%s" % ("1row" if rows == 1 else
                                                                     ("1col" if cols == 1 else "rxc")),
                                        case, "spike trains", "%s: %s" % (type(e).__name__, e),
                                        "import_spike_trains_from_time_series raised on a valid "
                                        "0/1 matrix", (rows, cols, sum(bits)))
                            continue
                        exp = [[start + (k + 1) * tb for k, b in enumerate(row) if b] for row in M]
                        got = [np.asarray(s.spikes, float).tolist() for s in sts]
                        eds = [[s.t_start, s.t_end] for s in sts]
                        ok = len(got) == rows and all(
                            len(a) == len(b) and all(abs(p - q) <= 1e-12 for p, q in zip(a, b))
                            for a, b in zip(got, exp)) and all(
                            e[0] == start and abs(e[1] - (start + cols * tb)) <= 1e-12 for e in eds)
                        if not ok:
                            r.violation(ID, "timeseries", "py", "timeseries", case,
                                        {"spikes": exp, "edges": [start, start + cols * tb]},
                                        {"spikes": got, "edges": eds},
                                        "imported trains are not start+(k+1)*bin for the non-zero "
                                        "samples on [start, start+c*bin]", (rows, cols, sum(bits)))
        r.sample({"mode": "timeseries", "rows<=": task["rmax"], "cols<=": task["cmax"]})
    finally:
        shutil.rmtree(d, ignore_errors=True)
    return r


def str_case(r, combo, sep, is_sorted, edges):
    import pyspike as spk
    n = len(combo)
    r.transitions += 1
    r.evaluations += 1
    r.traces += 1
    s = sep.join(repr(v) for v in combo)
    case = {"mode": "string", "values": combo, "string": s, "separator": sep,
            "is_sorted": is_sorted, "edges": edges}
    try:
        st = spk.spike_train_from_string(s, edges, sep=sep, is_sorted=is_sorted)
    except Exception as e:
        r.violation(ID, "string.exception", "py", "string.exception", case, "a train",
                    "%s: %s" % (type(e).__name__, e), "spike_train_from_string raised", (n,))
        return
    exp = list(combo) if is_sorted else sorted(combo)
    got = np.asarray(st.spikes, float).tolist()
    if got != exp or (st.t_start, st.t_end) != (0.0, 2e5):
        r.violation(ID, "string", "py", "string", case, {"spikes": exp, "edges": [0.0, 2e5]},
                    {"spikes": got, "edges": [st.t_start, st.t_end]},
                    "train built from a string does not hold exactly the listed times / a scalar "
                    "edge is not [0, edge]", (n,))


def run_strings(task):
    import pyspike as spk
    r = Result()
    vals = [0.5, 0.25, 3.0, 1e-7, 123456.789012345]
    for n in range(0, 4):
        for combo in product(vals, repeat=n):
            for sep in SEPS:
                for is_sorted in (False, True):
                    for edges in ([0.0, 2e5], 2e5):
                        r.states += 1
                        if n > 1:
                            r.sigs.add(hash((combo, sep, is_sorted)))
                        str_case(r, list(combo), sep, is_sorted, edges)
                        continue
                        s = sep.join(repr(v) for v in combo)
                        case = {"mode": "string", "string": s, "separator": sep,
                                "is_sorted": is_sorted, "edges": edges}
                        try:
                            st = spk.spike_train_from_string(s, edges, sep=sep, is_sorted=is_sorted)
                        except Exception as e:
                            r.violation(ID, "string.exception", "py", "string.exception", case,
                                        "a train", "%s: %s" % (type(e).__name__, e),
                                        "spike_train_from_string raised", (n,))
                            continue
                        exp = list(combo) if is_sorted else sorted(combo)
                        got = np.asarray(st.spikes, float).tolist()
                        if got != exp or (st.t_start, st.t_end) != (0.0, 2e5):
                            r.violation(ID, "string", "py", "string", case,
                                        {"spikes": exp, "edges": [0.0, 2e5]},
                                        {"spikes": got, "edges": [st.t_start, st.t_end]},
                                        "train built from a string does not hold exactly the listed "
                                        "times / a scalar edge is not [0, edge]", (n,))
    r.sample({"mode": "strings", "values": vals})
    return r


LINES_MENU = [("1.5 0.5 1.0", [0.5, 1.0, 1.5]), ("0.25", [0.25]), ("", []),
              ("3.0 2.0", [2.0, 3.0]), ("COMMENT", None), ("COMMENT 1.0 2.0", None)]


def file_case(r, d, combo, com, ignore):
    import pyspike as spk
    lines_menu = LINES_MENU
    r.transitions += 1
    r.evaluations += 1
    r.traces += 1
    f = os.path.join(d, "h.txt")
    with open(f, "w") as fh:
        for i in combo:
            fh.write(lines_menu[i][0].replace("COMMENT", com + " note") + "\n")
    exp = [lines_menu[i][1] for i in combo if lines_menu[i][1] is not None]
    if ignore:
        exp = [e for e in exp if e]
    case = {"mode": "file", "combo": combo, "lines": [lines_menu[i][0] for i in combo],
            "comment": com, "ignore_empty_lines": ignore}
    try:
        sts = spk.load_spike_trains_from_txt(f, [0.0, 4.0], comment=com, ignore_empty_lines=ignore)
        got = [np.asarray(s.spikes, float).tolist() for s in sts]
    except Exception as e:
        got = "%s: %s" % (type(e).__name__, e)
    if got != exp:
        r.violation(ID, "file", "py", "file", case, exp, got,
                    "comment lines not skipped / unsorted lines not sorted / empty trains not "
                    "preserved", (len(combo),))


def run_files(task):
    """hand-written files: comment lines, unsorted lines, empty lines"""
    import pyspike as spk
    r = Result()
    d = tempfile.mkdtemp(prefix="verif_c19_", dir=TMPBASE)
    lines_menu = [("1.5 0.5 1.0", [0.5, 1.0, 1.5]), ("0.25", [0.25]), ("", []),
                  ("3.0 2.0", [2.0, 3.0]), ("COMMENT", None), ("COMMENT 1.0 2.0", None)]
    try:
        for n in range(1, 4):
            for combo in product(range(len(lines_menu)), repeat=n):
                for com in COMMENTS:
                    for ignore in (True, False):
                        r.states += 1
                        r.sigs.add(hash((combo, com, ignore)))
                        file_case(r, d, list(combo), com, ignore)
                        continue
                        f = os.path.join(d, "h.txt")
                        with open(f, "w") as fh:
                            for i in combo:
                                fh.write(lines_menu[i][0].replace("COMMENT", com + " note") + "\n")
                        exp = [lines_menu[i][1] for i in combo if lines_menu[i][1] is not None]
                        if ignore:
                            exp = [e for e in exp if e]
                        case = {"mode": "file", "lines": [lines_menu[i][0] for i in combo],
                                "comment": com, "ignore_empty_lines": ignore}
                        try:
                            sts = spk.load_spike_trains_from_txt(f, [0.0, 4.0], comment=com,
                                                                 ignore_empty_lines=ignore)
                            got = [np.asarray(s.spikes, float).tolist() for s in sts]
                        except Exception as e:
                            got = "%s: %s" % (type(e).__name__, e)
                        if got != exp:
                            r.violation(ID, "file", "py", "file", case, exp, got,
                                        "comment lines not skipped / unsorted lines not sorted / "
                                        "empty trains not preserved", (n,))
        r.sample({"mode": "files", "line_menu": [l[0] for l in lines_menu]})
    finally:
        shutil.rmtree(d, ignore_errors=True)
    return r


def run_long(task):
    """long trains (more values than any 'summarise long arrays' threshold of a formatter)"""
    r = Result()
    d = tempfile.mkdtemp(prefix="verif_c19_", dir=TMPBASE)
    try:
        for n in (999, 1000, 1001, 1500, 5000):
            long_train = [0.5 + 0.25 * i for i in range(n)]
            edges = [0.0, 0.25 * n + 1.0]
            for lst in ([long_train], [long_train, []], [[], long_train, [1.0]]):
                for si, sep in enumerate(SEPS[:2]):
                    for prec in (3, 17):
                        r.states += 1
                        r.transitions += 4
                        r.sigs.add(hash((n, len(lst), sep, prec)))
                        roundtrip(r, d, lst, sep, prec, False, edges, (n, len(lst), si, prec))
        r.sample({"mode": "long", "spikes_per_train": [999, 1000, 1001, 1500, 5000]})
    finally:
        shutil.rmtree(d, ignore_errors=True)
    return r


def run_task(task):
    if task["mode"] == "long":
        return run_long(task)
    return {"roundtrip": run_roundtrip, "timeseries": run_timeseries, "strings": run_strings,
            "files": run_files}[task["mode"]](task)


def replay(rec):
    c = rec["case"]
    mode = c.get("mode", "roundtrip")
    r = Result()
    d = tempfile.mkdtemp(prefix="verif_c19_", dir=TMPBASE)
    try:
        if mode == "timeseries":
            ts_case(r, d, c["matrix"], c["start"], c["bin"], c["separator"])
        elif mode == "string":
            str_case(r, c["values"], c["separator"], c["is_sorted"], c["edges"])
        elif mode == "file":
            file_case(r, d, c["combo"], c["comment"], c["ignore_empty_lines"])
        else:
            roundtrip(r, d, c["trains"], c["separator"], c["precision"], c["ignore_empty_lines"],
                      c["edges"], ())
    finally:
        shutil.rmtree(d, ignore_errors=True)
    return r
