"""C01 - ISI-profile equals the ISI-distance definition for every pair of trains."""
import numpy as np

from mc import lattice, oracles as O, pairs
from mc.common import TOL, U
from mc.runner import Result
from mc import backend
from mc.measures import bivariate_forms

ID = "C01"
LEVEL = "model_checking"

MRTS_Q = [0.0, 2 * U, U, 3 * U]                      # incl. ties with ISIs
MRTS_T = [0.0, 0.5 * U, U, 2 * U, 3 * U, 4 * U, 6 * U, 8 * U, 16 * U, 40 * U]


def plan(tier):
    if tier == "quick":
        regimes = [("dense", 1, 5), ("bounded", 3, 6, 8), ("near", 2, 3), ("far", 1, 4)]
        menu = MRTS_Q
    else:
        regimes = [("dense", 1, 7), ("bounded", 3, 8, 11), ("near", 2, 4), ("far", 1, 6)]
        menu = MRTS_T
    desc, total = pairs.describe_regimes(regimes, 2)
    return {
        "tasks": pairs.regime_tasks(2, regimes, ["py", "pyx"], extra={"menu": menu}),
        "bounds": {"regimes": desc, "MRTS_menu": menu, "lattice": {"t0": 0.5, "u": U},
                   "backends": ["py", "pyx-model"]},
        "rule": "breadth-first enumeration of all ordered pairs of spike trains on "
                "the time lattice (every subset of lattice points incl. both edges) "
                "for every clock in the stated regimes, times the MRTS menu; a case "
                "is non-trivial when both trains carry spikes; distinct = distinct "
                "behaviour signatures (event-subset sequence + gap rank pattern)",
        "exhaustive": True,
        "assumptions": [
            "spike times restricted to the dyadic lattice t0+k*u (control flow "
            "depends only on order relations and ISI comparisons, DESIGN 2.1)",
            "pyx configuration = .pyx sources rendered to Python under stated C "
            "semantics, not a compiled binary (DESIGN 2.6)",
        ],
        "explanation": "public isi_profile/isi_distance compared with the global "
                       "reference model isi_len (oracles.py) at every state",
    }


_HELD = []


def check_held(r, be):
    """a profile returned by an earlier call must still hold the same data"""
    for prof, saved, case in _HELD:
        for k, v in saved.items():
            if not np.array_equal(np.asarray(getattr(prof, k), float), v):
                r.violation(ID, "stale_result", be, "stale_result/%s" % be,
                            dict(case, later_calls="the calls made for the following states"),
                            {k: v for k, v in saved.items()},
                            {k: np.asarray(getattr(prof, k), float) for k in saved},
                            "a profile object returned earlier was modified by later calls")
                break
    del _HELD[:]


def hold(prof, case):
    _HELD.append((prof, {k: np.array(getattr(prof, k), dtype=float) for k in ('x', 'y')}, case))


def evaluate(r, trains, edges, mrts, be, rank=()):
    import pyspike as spk
    ts, te = edges
    st1 = spk.SpikeTrain(trains[0], edges)
    st2 = spk.SpikeTrain(trains[1], edges)
    case = {"trains": trains, "edges": edges, "MRTS": mrts}
    cls = pairs.classes(trains, ts, te)
    e1, e2, ets, ete, em = O.exl(trains[0]), O.exl(trains[1]), O.ex(ts), O.ex(te), O.ex(mrts)
    xe, ye = O.isi_profile_exact(e1, e2, ets, ete, em)
    xf = [v / O.SCALE for v in xe]
    r.evaluations += 1
    r.traces += 1
    try:
        p = spk.isi_profile(st1, st2, MRTS=mrts)
        check_held(r, be)       # the profile of the previous call, after this call was made
        hold(p, case)
        x = np.asarray(p.x, dtype=float)
        y = np.asarray(p.y, dtype=float)
    except Exception as e:
        r.violation(ID, "isi_profile.exception", be, "isi_profile.exception/%s/%s" % (be, cls),
                    case, "a profile", "%s: %s" % (type(e).__name__, e),
                    "isi_profile raised on valid input", rank)
        return
    if list(x) != xf:
        r.violation(ID, "isi_profile.x", be, "isi_profile.x/%s/%s" % (be, cls), case, xf, x,
                    "breakpoints are not exactly the edges plus the distinct interior spike times",
                    rank)
        return
    yf = [float(v) for v in ye]
    if len(y) != len(yf) or not all(abs(a - b) <= TOL for a, b in zip(y, yf)):
        r.violation(ID, "isi_profile.y", be, "isi_profile.y/%s/%s" % (be, cls), case, yf, y,
                    "piece values differ from |v1-v2|/max(v1,v2,MRTS)", rank)
        return
    r.outcomes.add(tuple(round(v, 9) for v in yf))
    # the same bivariate profile through the list and `indices` call forms
    try:
        for fname, q in bivariate_forms(spk.isi_profile, st1, st2, edges, MRTS=mrts):
            if list(np.asarray(q.x, float)) != xf or len(q.y) != len(yf) or \
                    not all(abs(a - b) <= TOL for a, b in zip(np.asarray(q.y, float), yf)):
                r.violation(ID, "isi_profile.form", be, "isi_profile.form/%s/%s" % (be, cls),
                            dict(case, form=fname), {"x": xf, "y": yf}, {"x": q.x, "y": q.y},
                            "the profile of the two trains obtained through call form %s differs "
                            "from the definition" % fname, rank)
                return
    except Exception as e:
        r.violation(ID, "isi_profile.form", be, "isi_profile.form.exception/%s/%s" % (be, cls),
                    case, "a profile", "%s: %s" % (type(e).__name__, e),
                    "a list / indices call form raised", rank)
        return
    try:
        d = float(spk.isi_distance(st1, st2, MRTS=mrts))
    except Exception as e:
        r.violation(ID, "isi_distance.exception", be, "isi_distance.exception/%s/%s" % (be, cls),
                    case, "a number", "%s: %s" % (type(e).__name__, e),
                    "isi_distance raised on valid input", rank)
        return
    de = float(O.pwc_average(xe, ye))
    if not abs(d - de) <= TOL:
        r.violation(ID, "isi_distance.value", be, "isi_distance.value/%s/%s" % (be, cls),
                    case, de, d, "distance differs from the time average of the defined profile",
                    rank)


def check_state(r, k, masks, task):
    trains, edges = pairs.trains_edges(k, masks)
    ns = pairs.nspikes(masks)
    for mi, m in enumerate(task["menu"]):
        evaluate(r, trains, edges, m, task["backend"], (k, ns, mi))
    if r.states % 997 == 1:
        r.sample({"trains": trains, "edges": edges, "MRTS_menu": task["menu"]})


def run_task(task):
    return pairs.run_states(task, check_state, ID)


def replay(rec):
    r = Result()
    c = rec["case"]
    evaluate(r, c["trains"], c["edges"], c["MRTS"], rec["backend"], tuple(rec.get("rank", ())))
    return r
