"""C17 - the SPIKE-Sync filter keeps exactly the spikes above threshold."""
import numpy as np

from mc import lattice, pairs, oracles as O
from mc.common import TOL, U, T0
from mc.runner import Result

ID = "C17"
LEVEL = "model_checking"

MENU_Q = [(None, 0.0), (U, 0.0), (None, 6 * U), (2 * U, 12 * U)]
MENU_T = [(None, 0.0), (0.0, 0.0), (0.5 * U, 0.0), (U, 0.0), (2 * U, 0.0), (None, 6 * U),
          (None, 12 * U), (2 * U, 12 * U), (U, 8 * U)]


def thresholds(n):
    """0, every k/(N-1), the midpoints between them, 1"""
    out = set([0.0, 1.0])
    for k in range(n):
        out.add(k / float(n - 1))
        if k < n - 1:
            out.add((k + 0.5) / float(n - 1))
    return sorted(out)


def plan(tier):
    if tier == "quick":
        specs = [(2, [("dense", 1, 5), ("bounded", 3, 6, 7)], MENU_Q), (3, [("dense", 1, 3)], MENU_Q[:3]),
                 (4, [("dense", 1, 2)], MENU_Q[:2]), (4, [("bounded", 1, 3, 4)], MENU_Q[:3]),
                 (5, [("dense", 1, 1), ("bounded", 1, 2, 2)], MENU_Q[:2]),
                 (5, [("bounded", 1, 3, 3)], MENU_Q[:1])]
    else:
        specs = [(2, [("dense", 1, 6), ("bounded", 3, 7, 9)], MENU_T), (3, [("dense", 1, 4)], MENU_Q),
                 (4, [("dense", 1, 2), ("bounded", 2, 3, 3)], MENU_Q),
                 (4, [("bounded", 1, 4, 4)], MENU_Q[:3]),
                 (5, [("dense", 1, 1), ("bounded", 1, 2, 3)], MENU_Q[:2])]
    tasks, descs = [], []
    mixed_ks = (8,) if tier == "quick" else (8, 10)
    for be in ("py", "pyx"):
        for sh in range(32):
            tasks.append({"backend": be, "mode": "mixed", "ks": list(mixed_ks), "shard": sh,
                          "nshards": 32})
    descs.append({"regime": "mixed-rate triples", "clocks": list(mixed_ks),
                  "states": pairs.mixed_rate_count(mixed_ks), "menu_max_tau_MRTS": [[None, "auto"]],
                  "what": "two trains with <=2 spikes x a third train in {empty, every tick, every "
                          "second tick}, MRTS='auto': the pooled threshold of the whole list "
                          "decides (C15), and only there does it differ enough from pair-wise "
                          "thresholds to change a coincidence"})
    for N, regimes, menu in specs:
        tasks += pairs.regime_tasks(N, regimes, ["py", "pyx"], extra={"menu": menu}, nshards=48)
        d, _ = pairs.describe_regimes(regimes, N)
        for x in d:
            x["menu_max_tau_MRTS"] = menu
            x["thresholds"] = thresholds(N)
        descs += d
    return {
        "tasks": tasks,
        "bounds": {"regimes": descs, "lattice": {"t0": T0, "u": U},
                   "backends": ["py", "pyx-model"]},
        "rule": "breadth-first enumeration of all ordered N-tuples (N=2..5) of lattice spike trains, "
                "times the (max_tau, MRTS) menu, times all thresholds 0, k/(N-1) (hit exactly), the "
                "midpoints between them and 1; non-trivial = at least two trains carry spikes",
        "exhaustive": True,
        "assumptions": ["spike times on the dyadic lattice",
                        "coincidences as in C03 (all-pairs model, max_tau caps the window)",
                        "pyx configuration = rendered .pyx sources"],
        "explanation": "kept <=> (number of other trains with a coincident or simultaneous spike) "
                       "/ (N-1) > threshold, from the all-pairs model; cross-check with the "
                       "multivariate SPIKE-Sync profile entry wherever the spike time is unique to "
                       "one train; kept + removed is a partition in original order on the original "
                       "interval; monotone in the threshold; inputs unchanged",
    }


def evaluate(r, trains, edges, max_tau, mrts, be, rank=()):
    import pyspike as spk
    ts, te = edges
    n = len(trains)
    sts = [spk.SpikeTrain(t, edges) for t in trains]
    case = {"trains": trains, "edges": edges, "max_tau": max_tau, "MRTS": mrts}
    cls = "N%d" % n + ("/auto" if mrts == "auto" else "")
    ets, ete = O.ex(ts), O.ex(te)
    E = [O.exl(t) for t in trains]
    emt = O.ex(max_tau) if max_tau else 0
    if mrts == "auto":
        # pooled RMS threshold of the whole list, in exact arithmetic up to the final root
        from fractions import Fraction
        import math
        pool = O.isi_lengths_pool(E, ets, ete)
        em = Fraction(math.sqrt(float(Fraction(sum(p * p for p in pool), len(pool)))))
    else:
        em = O.ex(mrts)
    counts = []
    for i in range(n):
        c = [0] * len(E[i])
        for j in range(n):
            if i != j:
                ind = O.indicator(E[i], E[j], ets, ete, emt, em)
                c = [a + b for a, b in zip(c, ind)]
        counts.append(c)
    before = [(s.spikes.tobytes(), s.t_start, s.t_end) for s in sts]
    kw = dict(max_tau=max_tau, MRTS=mrts)
    try:
        prof = spk.spike_sync_profile(sts, **kw) if n > 2 else spk.spike_sync_profile(sts[0], sts[1], **kw)
        px, py, pmp = (np.asarray(v, float).tolist() for v in (prof.x, prof.y, prof.mp))
    except Exception as e:
        r.violation(ID, "profile.exception", be, "profile.exception/%s/%s" % (be, cls), case,
                    "a profile", "%s: %s" % (type(e).__name__, e), "spike_sync_profile raised", rank)
        return
    alltimes = [t for tr in trains for t in tr]
    prev_kept = None
    for thr in thresholds(n):
        r.evaluations += 1
        r.traces += 1
        c2 = dict(case, threshold=thr)
        try:
            kept, removed = spk.filter_by_spike_sync(sts, thr, return_removed_spikes=True, **kw)
            only = spk.filter_by_spike_sync(sts, thr, **kw)
        except Exception as e:
            r.violation(ID, "exception", be, "exception/%s/%s" % (be, cls), c2, "trains",
                        "%s: %s" % (type(e).__name__, e), "filter_by_spike_sync raised", rank)
            return
        K = [np.asarray(s.spikes, float).tolist() for s in kept]
        R = [np.asarray(s.spikes, float).tolist() for s in removed]
        Ke = [[t for t, c in zip(trains[i], counts[i]) if c > thr * (n - 1)] for i in range(n)]
        if K != Ke:
            r.violation(ID, "kept", be, "kept/%s/%s" % (be, cls), c2, Ke, K,
                        "kept spikes are not exactly those whose coincidence fraction exceeds the "
                        "threshold", rank)
            return
        if [np.asarray(s.spikes, float).tolist() for s in only] != K:
            r.violation(ID, "kept.form", be, "kept.form/%s/%s" % (be, cls), c2, K,
                        [s.spikes.tolist() for s in only],
                        "result differs between return_removed_spikes=True and False", rank)
            return
        for i in range(n):
            merged = sorted(K[i] + R[i])
            if merged != trains[i] or set(K[i]) & set(R[i]) or K[i] != sorted(K[i]) or \
                    R[i] != sorted(R[i]) or \
                    [kept[i].t_start, kept[i].t_end, removed[i].t_start, removed[i].t_end] != \
                    [ts, te, ts, te]:
                r.violation(ID, "partition", be, "partition/%s/%s" % (be, cls), c2,
                            {"train": trains[i], "edges": edges},
                            {"kept": K[i], "removed": R[i],
                             "edges": [kept[i].t_start, kept[i].t_end]},
                            "kept and removed spikes are not a partition of the input train in "
                            "the original order on the original interval", rank)
                return
        # agreement with the multivariate profile where the spike time is unique
        for i in range(n):
            for t, c in zip(trains[i], counts[i]):
                if alltimes.count(t) == 1:
                    j = px.index(t, 1)
                    frac = py[j] / pmp[j]
                    if (frac > thr) != (t in K[i]) and abs(frac - thr) > 1e-12:
                        r.violation(ID, "vs_profile", be, "vs_profile/%s/%s" % (be, cls),
                                    dict(c2, t=t), {"profile_value": frac, "kept": frac > thr},
                                    {"kept": t in K[i]},
                                    "filter decision disagrees with the value the multivariate "
                                    "SPIKE-Sync profile shows for that spike", rank)
                        return
        if prev_kept is not None:
            if any(not set(a) <= set(b) for a, b in zip(K, prev_kept)):
                r.violation(ID, "monotone", be, "monotone/%s/%s" % (be, cls), c2, prev_kept, K,
                            "a higher threshold keeps more spikes", rank)
                return
        prev_kept = K
    # a list may contain the same object several times, and reconciliation may be switched off
    if n >= 3 and trains[0] == trains[1] and mrts != "auto":
        same = [sts[0], sts[0]] + sts[2:]
        for thr in thresholds(n):
            try:
                a = spk.filter_by_spike_sync(sts, thr, **kw)
                b = spk.filter_by_spike_sync(same, thr, Reconcile=False, **kw)
            except Exception as e:
                r.violation(ID, "exception", be, "exception.same_object/%s/%s" % (be, cls),
                            dict(case, threshold=thr), "trains", "%s: %s" % (type(e).__name__, e),
                            "filter raised for a list holding the same train object twice", rank)
                break
            ka = [np.asarray(s.spikes, float).tolist() for s in a]
            kb = [np.asarray(s.spikes, float).tolist() for s in b]
            if ka != kb:
                r.violation(ID, "same_object", be, "same_object/%s/%s" % (be, cls),
                            dict(case, threshold=thr, Reconcile=False), ka, kb,
                            "a list holding the same train object twice (Reconcile=False) is "
                            "filtered differently from equal copies", rank)
                break
    if [(s.spikes.tobytes(), s.t_start, s.t_end) for s in sts] != before:
        r.violation(ID, "modifies", be, "modifies/%s/%s" % (be, cls), case, "inputs unchanged",
                    [s.spikes.tolist() for s in sts], "the filter modified its input trains", rank)
    r.outcomes.add(str(counts))


def check_state(r, k, masks, task):
    trains, edges = pairs.trains_edges(k, masks)
    ns = pairs.nspikes(masks)
    for mi, (mt, m) in enumerate(task["menu"]):
        evaluate(r, trains, edges, mt, m, task["backend"], (k, ns, mi))
    if r.states % 499 == 1:
        r.sample({"trains": trains, "edges": edges, "thresholds": thresholds(len(trains))})


def run_task(task):
    if task.get("mode") == "mixed":
        def mixed(r, k, masks, task):
            trains, edges = pairs.trains_edges(k, masks)
            evaluate(r, trains, edges, None, "auto", task["backend"], (k, pairs.nspikes(masks)))
        return pairs.run_states(task, mixed, ID, states=pairs.mixed_rate_triples(
            tuple(task["ks"]), 2, task["shard"], task["nshards"]))
    return pairs.run_states(task, check_state, ID)


def replay(rec):
    r = Result()
    c = rec["case"]
    evaluate(r, c["trains"], c["edges"], c["max_tau"], c["MRTS"], rec["backend"],
             tuple(rec.get("rank", ())))
    return r
