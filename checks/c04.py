"""C04 - spike-train order and directionality follow the leader/follower sign convention."""
from itertools import permutations, combinations

import numpy as np

from mc import lattice, oracles as O, pairs
from mc.common import TOL, U
from mc.runner import Result

ID = "C04"
LEVEL = "model_checking"

# MRTS >= 6U is needed for the interpolation to matter on a lattice of spacing U
MENU_PAIR_Q = [(None, 0.0), (U, 0.0), (None, 6 * U), (1.5 * U, 8 * U)]
MENU_PAIR_T = [(mt, m) for mt in (None, 0.0, 0.5 * U, U, 2 * U, 3 * U)
               for m in (0.0, 4 * U, 6 * U, 8 * U, 12 * U, 40 * U)]
MENU_LIST_Q = [(None, 0.0), (2 * U, 6 * U)]
MENU_LIST_T = [(None, 0.0), (U, 0.0), (None, 6 * U), (1.5 * U, 8 * U), (None, 12 * U)]


def selections(n):
    """every admissible indices selection: any subset of size >= 2 in any order,
    plus None (= all trains)."""
    out = [None]
    for size in range(2, n + 1):
        for comb in combinations(range(n), size):
            for perm in permutations(comb):
                out.append(list(perm))
    return out


SEL = {}


def plan(tier):
    if tier == "quick":
        specs = [(2, [("dense", 1, 5), ("bounded", 3, 6, 7)], MENU_PAIR_Q),
                 (3, [("dense", 1, 3)], MENU_LIST_Q),
                 (4, [("dense", 1, 2)], MENU_LIST_Q[:1]),
                 # with clock <= 2 no two distinct lattice spikes are coincident (window <= u):
                 # single-spike trains at clock 3-4 give non-zero order / directionality for N=4
                 (4, [("bounded", 1, 3, 4)], MENU_LIST_Q),
                 (5, [("bounded", 1, 3, 3)], MENU_LIST_Q[:1]), (6, [("bounded", 1, 1, 1)], MENU_LIST_Q[:1])]
    else:
        specs = [(2, [("dense", 1, 6)], MENU_PAIR_T), (2, [("dense", 7, 7), ("bounded", 3, 8, 10)],
                                                       MENU_PAIR_Q + [(None, 12 * U)]),
                 (3, [("dense", 1, 4)], MENU_LIST_T[:3]),
                 (4, [("dense", 1, 2)], MENU_LIST_T[:2]), (4, [("dense", 3, 3)], MENU_LIST_Q[:1]),
                 (4, [("bounded", 1, 3, 6)], MENU_LIST_Q),
                 (5, [("bounded", 1, 1, 4)], MENU_LIST_Q), (6, [("bounded", 1, 1, 3)], MENU_LIST_Q[:1])]
    tasks, descs = [], []
    mixed_ks = (8,) if tier == "quick" else (8, 10)
    for be in ("py", "pyx"):
        for sh in range(32):
            tasks.append({"backend": be, "mode": "mixed", "ks": list(mixed_ks), "shard": sh,
                          "nshards": 32})
    descs.append({"regime": "mixed-rate triples", "clocks": list(mixed_ks),
                  "states": pairs.mixed_rate_count(mixed_ks), "menu_max_tau_MRTS": [[None, "auto"]],
                  "index_selections": [None, [2, 0, 1]],
                  "what": "two sparse trains x {empty, every tick, every second tick}, MRTS='auto' "
                          "(pooled threshold of the whole list)"})
    for N, regimes, menu in specs:
        sel = "all"
        if N == 4 and (tier == "quick" or regimes[0][1] == 3 or regimes[0][0] == "bounded"):
            sel = "quick4"
        if N >= 5:
            sel = "many%d" % N
        tasks += pairs.regime_tasks(N, regimes, ["py", "pyx"],
                                    extra={"menu": menu, "sel": sel},
                                    nshards=48 if N > 2 else 32)
        d, _ = pairs.describe_regimes(regimes, N)
        for x in d:
            x["menu_max_tau_MRTS"] = menu
            x["index_selections"] = (len(SEL[sel] if sel != "all" else selections(N))
                                     if N > 2 else 1)
        descs += d
    return {
        "tasks": tasks,
        "bounds": {"regimes": descs, "lattice": {"t0": 0.5, "u": U},
                   "backends": ["py", "pyx-model"]},
        "rule": "breadth-first enumeration of all ordered N-tuples of spike trains on the time "
                "lattice (N=2,3,4) for every clock in the stated regimes, times the (max_tau, "
                "MRTS) menu, times every ordered `indices` selection of size >= 2 (N>2); "
                "non-trivial = at least two trains carry spikes; distinct = behaviour signatures",
        "exhaustive": True,
        "assumptions": [
            "spike times restricted to the dyadic lattice (DESIGN 2.1)",
            "coincidences as in C03 (all-pairs model, max_tau caps the window)",
            "directionality matrix: entries above the diagonal are compared with the "
            "bivariate value of (row train, column train); entries below by antisymmetry",
            "pyx configuration = rendered .pyx sources (DESIGN 2.6)",
        ],
        "explanation": "order profile / order value / directionality values / directionality "
                       "/ matrix / synfire identity compared with the all-pairs coincidence "
                       "model and with the metamorphic relations of the statement",
    }


def _viol(r, sub, be, sig, case, exp, obs, msg, rank):
    r.violation(ID, sub, be, "%s/%s/%s" % (sub, be, sig), case, exp, obs, msg, rank)


def eval_pair(r, trains, edges, max_tau, mrts, be, rank=()):
    import pyspike as spk
    ts, te = edges
    st1 = spk.SpikeTrain(trains[0], edges)
    st2 = spk.SpikeTrain(trains[1], edges)
    case = {"kind": "pair", "trains": trains, "edges": edges, "max_tau": max_tau, "MRTS": mrts}
    cls = pairs.classes(trains, ts, te)
    A, B, ets, ete = O.exl(trains[0]), O.exl(trains[1]), O.ex(ts), O.ex(te)
    emt = O.ex(max_tau) if max_tau else 0
    em = O.ex(mrts)
    xs, ys, ms = O.order_profile(A, B, ets, ete, emt, em)
    d1e, d2e = O.directionality(A, B, ets, ete, emt, em)
    r.evaluations += 1
    r.traces += 1
    kw = dict(max_tau=max_tau, MRTS=mrts)
    try:
        p = spk.spike_train_order_profile(st1, st2, **kw)
        x, y, mp = (np.asarray(v, dtype=float) for v in (p.x, p.y, p.mp))
        q = spk.spike_train_order_profile(st2, st1, **kw)
        v = float(spk.spike_train_order(st1, st2, **kw))
        vu = float(spk.spike_train_order(st1, st2, normalize=False, **kw))
        vs = float(spk.spike_train_order(st2, st1, **kw))
        dv = spk.spike_directionality_values(st1, st2, **kw)
        dn = float(spk.spike_directionality(st1, st2, **kw))
        du = float(spk.spike_directionality(st1, st2, normalize=False, **kw))
        dus = float(spk.spike_directionality(st2, st1, normalize=False, **kw))
    except Exception as e:
        _viol(r, "pair.exception", be, cls, case, "results",
              "%s: %s" % (type(e).__name__, e), "an order/directionality function raised", rank)
        return
    xf = [ts] + [t / O.SCALE for t in xs] + [te]
    if list(x) != xf or list(y[1:-1]) != [float(t) for t in ys] or \
            list(mp[1:-1]) != [float(t) for t in ms]:
        _viol(r, "order_profile", be, cls, case, {"x": xf, "y": ys, "mp": ms},
              {"x": x, "y": y[1:-1], "mp": mp[1:-1]},
              "order profile differs from the leader/follower convention", rank)
        return
    r.outcomes.add((tuple(ys), tuple(ms)))
    if list(q.x) != xf or list(np.asarray(q.y)[1:-1]) != [-float(t) if t else 0.0 for t in ys]:
        _viol(r, "order_profile.swap", be, cls, case, [-t for t in ys], np.asarray(q.y)[1:-1],
              "swapping the trains does not negate the order profile", rank)
        return
    sy, sm = sum(ys), sum(ms)
    if sm > 0:
        if not (abs(v - sy / float(sm)) <= TOL and abs(vu - sy) <= TOL and abs(vs + v) <= TOL):
            _viol(r, "order_value", be, cls, case,
                  {"normalized": sy / float(sm), "unnormalized": sy, "swapped": -sy / float(sm)},
                  {"normalized": v, "unnormalized": vu, "swapped": vs},
                  "spike_train_order differs from sum(y)/sum(mp)", rank)
            return
    else:
        if not (np.isfinite(v) and np.isfinite(vu) and vu == 0.0):
            _viol(r, "order_value.empty", be, cls, case,
                  {"normalized": "finite", "unnormalized": 0.0},
                  {"normalized": v, "unnormalized": vu},
                  "spike_train_order of two trains without spikes is not finite / not 0 "
                  "un-normalised", rank)
            return
    if len(dv) != 2 or list(np.asarray(dv[0], float)) != [float(t) for t in d1e] or \
            list(np.asarray(dv[1], float)) != [float(t) for t in d2e]:
        _viol(r, "directionality_values", be, cls, case, [d1e, d2e], dv,
              "per-spike directionality values differ from +1 leader / -1 follower", rank)
        return
    s1 = float(sum(d1e))
    if not (abs(du - s1) <= TOL and abs(dus + s1) <= TOL):
        _viol(r, "directionality.unnormalized", be, cls, case, {"AB": s1, "BA": -s1},
              {"AB": du, "BA": dus},
              "un-normalised directionality is not the sum of A's values / not negated by swap",
              rank)
        return
    # normalize given as 0 / 1 or numpy.bool_ means the same as the Python bool
    try:
        for tn, conv in (("int", int), ("numpy.bool_", np.bool_)):
            tv = [float(spk.spike_train_order(st1, st2, normalize=conv(False), **kw)),
                  float(spk.spike_directionality(st1, st2, normalize=conv(False), **kw)),
                  float(spk.spike_directionality(st1, st2, normalize=conv(True), **kw)),
                  float(spk.spike_train_order(st1, st2, normalize=conv(True), **kw))]
            ref = [vu, du, dn, v]
            if not all((a == b) or abs(a - b) <= TOL or (a != a and b != b) for a, b in zip(tv, ref)):
                _viol(r, "typed_normalize", be, cls, dict(case, normalize_given_as=tn), ref, tv,
                      "normalize given as %s is not treated like the Python bool" % tn, rank)
                return
    except Exception as e:
        _viol(r, "typed_normalize", be, cls, case, "results", "%s: %s" % (type(e).__name__, e),
              "normalize given as int / numpy.bool_ raised", rank)
        return
    if len(A) > 0:
        if not abs(dn - s1 / len(A)) <= TOL:
            _viol(r, "directionality.normalized", be, cls, case, s1 / len(A), dn,
                  "normalised directionality is not sum/len(A)", rank)
            return
    elif not np.isfinite(dn):
        _viol(r, "directionality.normalized.empty", be, cls, case, "finite", dn,
              "normalised directionality of a train without spikes is not finite", rank)
        return


def eval_list(r, trains, edges, idx, max_tau, mrts, be, rank=()):
    import pyspike as spk
    ts, te = edges
    sts = [spk.SpikeTrain(t, edges) for t in trains]
    case = {"kind": "list", "trains": trains, "edges": edges, "indices": idx,
            "max_tau": max_tau, "MRTS": mrts}
    sel = list(range(len(trains))) if idx is None else idx
    n = len(sel)
    sig = "N%d/%s" % (len(trains), "all" if idx is None else
                      ("prefix" if idx == list(range(n)) else
                       ("sorted" if idx == sorted(idx) else "unsorted")))
    ets, ete = O.ex(ts), O.ex(te)
    E = [O.exl(trains[i]) for i in sel]
    emt = O.ex(max_tau) if max_tau else 0
    if mrts == "auto":
        # the pooled RMS threshold of the whole reconciled list (C15)
        from fractions import Fraction
        import math
        pool = O.isi_lengths_pool([O.exl(t) for t in trains], ets, ete)
        em = Fraction(math.sqrt(float(Fraction(sum(p * p for p in pool), len(pool)))))
    else:
        em = O.ex(mrts)
    r.evaluations += 1
    r.traces += 1
    kw = dict(max_tau=max_tau, MRTS=mrts)
    if idx is not None:
        kw["indices"] = idx
    # ---- oracle
    vals = [[0] * len(E[a]) for a in range(n)]
    D = [[0.0] * n for _ in range(n)]
    ev = {}
    e_tot, m_tot = 0, 0
    for a in range(n):
        for b in range(a + 1, n):
            d1, d2 = O.directionality(E[a], E[b], ets, ete, emt, em)
            for k, t in enumerate(d1):
                vals[a][k] += t
            for k, t in enumerate(d2):
                vals[b][k] += t
            D[a][b] = float(sum(d1))
            D[b][a] = -float(sum(d1))
            xs, ys, ms = O.order_profile(E[a], E[b], ets, ete, emt, em)
            for t, yy, mm in zip(xs, ys, ms):
                c = ev.setdefault(t, [0, 0])
                c[0] += yy
                c[1] += mm
            e_tot += sum(ys)
            m_tot += sum(ms)
    vals_e = [[v / float(n - 1) for v in row] for row in vals]
    # distinct expected results per regime: a regime in which nothing is ever coincident (all
    # zero) explores nothing - see per_regime.distinct_outcomes in the evidence
    r.outcomes.add((n, tuple(tuple(row) for row in D), int(m_tot)))
    # ---- directionality values
    try:
        dv = spk.spike_directionality_values(sts, **kw)
        dv = [np.asarray(a, float).tolist() for a in dv]
    except Exception as e:
        _viol(r, "values.exception", be, sig, case, vals_e, "%s: %s" % (type(e).__name__, e),
              "spike_directionality_values raised for an admissible selection", rank)
        dv = None
    if dv is not None:
        ok = len(dv) == n and all(len(a) == len(b) and all(abs(p - q) <= TOL for p, q in zip(a, b))
                                  for a, b in zip(dv, vals_e))
        if not ok:
            _viol(r, "values", be, sig, case, vals_e, dv,
                  "directionality values are not the +-1 values averaged over the other "
                  "selected trains", rank)
    # ---- matrix (un-normalised and normalised)
    for norm in (False, True):
        try:
            M = np.asarray(spk.spike_directionality_matrix(sts, normalize=norm, **kw), float)
        except Exception as e:
            _viol(r, "matrix.exception", be, sig, dict(case, normalize=norm), "a matrix",
                  "%s: %s" % (type(e).__name__, e),
                  "spike_directionality_matrix raised for an admissible selection", rank)
            continue
        Me = [[0.0] * n for _ in range(n)]
        finite = True
        for a in range(n):
            for b in range(a + 1, n):
                v = D[a][b]
                if norm:
                    if len(E[a]) > 0:
                        v = v / len(E[a])
                    else:
                        v = None      # only finiteness is required
                Me[a][b] = v
                Me[b][a] = None if v is None else -v
        ok = M.shape == (n, n)
        if ok:
            for a in range(n):
                for b in range(n):
                    if Me[a][b] is None:
                        ok = ok and np.isfinite(M[a, b]) and M[a, b] == -M[b, a]
                    else:
                        ok = ok and abs(M[a, b] - Me[a][b]) <= TOL
        if not ok:
            _viol(r, "matrix", be, sig, dict(case, normalize=norm), Me, M,
                  "directionality matrix is not the antisymmetric matrix of bivariate values "
                  "of the selected trains", rank)
    # ---- order value (pooled) and synfire identity
    try:
        F = float(spk.spike_train_order(sts, **kw))
    except Exception as e:
        _viol(r, "order_multi.exception", be, sig, case, "a number",
              "%s: %s" % (type(e).__name__, e), "spike_train_order(list) raised", rank)
        F = None
    if F is not None:
        if m_tot > 0:
            Fe = e_tot / float(m_tot)
            nsp = sum(len(x) for x in E)
            Fs = 2.0 * sum(D[a][b] for a in range(n) for b in range(a + 1, n)) / ((n - 1) * nsp)
            assert abs(Fe - Fs) <= 1e-12, "oracle self-check: synfire identity"
            if not abs(F - Fe) <= TOL:
                _viol(r, "order_multi", be, sig, case, Fe, F,
                      "multivariate spike_train_order is not pooled order / pooled "
                      "multiplicity (= 2*upper-triangle sum/((N-1)*#spikes))", rank)
        elif not np.isfinite(F):
            _viol(r, "order_multi.empty", be, sig, case, "finite", F,
                  "spike_train_order of trains without spikes is not finite", rank)
    # ---- multivariate order profile
    try:
        p = spk.spike_train_order_profile(sts, **kw)
        x, y, mp = (np.asarray(v, float) for v in (p.x, p.y, p.mp))
    except Exception as e:
        _viol(r, "order_profile_multi.exception", be, sig, case, "a profile",
              "%s: %s" % (type(e).__name__, e), "spike_train_order_profile(list) raised", rank)
        return
    xs = sorted(ev)
    xf = [ts] + [t / O.SCALE for t in xs] + [te]
    if list(x) != xf or list(y[1:-1]) != [float(ev[t][0]) for t in xs] or \
            list(mp[1:-1]) != [float(ev[t][1]) for t in xs]:
        _viol(r, "order_profile_multi", be, sig, case,
              {"x": xf, "y": [ev[t][0] for t in xs], "mp": [ev[t][1] for t in xs]},
              {"x": x, "y": y[1:-1], "mp": mp[1:-1]},
              "multivariate order profile is not the per-event sum over the selected pairs",
              rank)


def check_state(r, k, masks, task):
    trains, edges = pairs.trains_edges(k, masks)
    ns = pairs.nspikes(masks)
    be = task["backend"]
    if len(masks) == 2:
        for mi, (mt, m) in enumerate(task["menu"]):
            eval_pair(r, trains, edges, mt, m, be, (k, ns, mi))
    else:
        sels = SEL[task["sel"]] if task.get("sel", "all") != "all" else SEL[len(masks)]
        for si, idx in enumerate(sels):
            for mi, (mt, m) in enumerate(task["menu"]):
                eval_list(r, trains, edges, idx, mt, m, be, (k, ns, si, mi))
    if r.states % 499 == 1:
        r.sample({"trains": trains, "edges": edges, "menu": task["menu"]})


SEL = {3: selections(3), 4: selections(4),
       # quick tier, N=4: identity, prefixes, non-prefix sorted, unsorted, full permutations
       # many trains with at most one spike each: 10 / 15 pairs
       "many5": [None, [4, 3, 2, 1, 0], [2, 4, 0], [1, 3, 0, 4, 2]],
       "many6": [None, [5, 4, 3, 2, 1, 0], [3, 5, 1], [2, 0, 4, 1, 5, 3]],
       "quick4": [None, [0, 1], [1, 0], [2, 3], [3, 1], [0, 3], [1, 2, 3], [0, 2, 3],
                  [3, 0, 2], [2, 1, 0], [3, 2, 1, 0], [1, 3, 0, 2]]}


def run_task(task):
    if task.get("mode") == "mixed":
        def mixed(r, k, masks, task):
            trains, edges = pairs.trains_edges(k, masks)
            for si, idx in enumerate((None, [2, 0, 1])):
                eval_list(r, trains, edges, idx, None, "auto", task["backend"],
                          (k, pairs.nspikes(masks), si))
        return pairs.run_states(task, mixed, ID, states=pairs.mixed_rate_triples(
            tuple(task["ks"]), 2, task["shard"], task["nshards"]))
    return pairs.run_states(task, check_state, ID)


def replay(rec):
    r = Result()
    c = rec["case"]
    rank = tuple(rec.get("rank", ()))
    if c["kind"] == "pair":
        eval_pair(r, c["trains"], c["edges"], c["max_tau"], c["MRTS"], rec["backend"], rank)
    else:
        eval_list(r, c["trains"], c["edges"], c["indices"], c["max_tau"], c["MRTS"],
                  rec["backend"], rank)
    return r
