"""C11 - discrete profiles add by event and integrate over open intervals."""
import numpy as np

from mc import history as H
from mc.common import TOL, U, T0
from mc.runner import Result

ID = "C11"
LEVEL = "model_checking"
SCALARS = [2.0]
WINDOWS = [0, 1, 2, 3]


def plan(tier):
    if tier == "quick":
        specs = [(3, None, 3), (4, None, 2), (5, 3, 2), (6, 2, 1)]
        Ls = [1, 2, 3, 4, 5, 6]
    else:
        specs = [(3, None, 3), (4, None, 3), (5, None, 2), (6, 3, 2), (7, 2, 1)]
        Ls = [1, 2, 3, 4, 5, 6, 7]
    tasks, desc = [], []
    for L, maxev, depth in specs:
        n = len(H.disc_menu(L, max_events=maxev))
        nsh = max(1, min(32, n // 2))
        for be in ("py", "pyx"):
            for s in range(nsh):
                tasks.append({"mode": "history", "backend": be, "L": L, "maxev": maxev,
                              "depth": depth, "shard": s, "nshards": nsh})
        desc.append({"mode": "history", "support_cells": L, "operand_menu": n,
                     "max_events_per_operand": maxev, "history_depth": depth})
    for L in Ls:
        n = len(H.disc_menu(L))
        nsh = max(1, min(16, n // 4))
        for s in range(nsh):
            tasks.append({"mode": "integral", "backend": "py", "L": L, "shard": s, "nshards": nsh})
        desc.append({"mode": "integral/avrg/plottable", "support_cells": L, "functions": n,
                     "intervals": "all a<b on the half-lattice, all ordered pairs of them (L<=3)",
                     "averaging_window_size": WINDOWS})
    return {
        "tasks": tasks,
        "bounds": {"explorations": desc, "backends": ["py", "pyx-model (cython_add)"]},
        "rule": "history mode: breadth-first search over add(g)/mul_scalar/copy histories on live "
                "DiscreteFunc objects from every profile of the operand menu (all event subsets of "
                "the lattice points incl. both edge points x two value/multiplicity patterns), "
                "deduplicated by exact model state; integral mode: every profile x every "
                "half-lattice interval / pair of intervals x smoothing windows 0..3",
        "exhaustive": True,
        "assumptions": ["event times on the lattice, interval ends on the half-lattice",
                        "edge entries carry copies of the first/last event as the library builds "
                        "them; they are compared only where the statement gives them a meaning "
                        "(time axis, plottable data)",
                        "pyx configuration = rendered cython_add.pyx"],
        "explanation": "add: one entry per distinct event time, increasing, values and "
                       "multiplicities summed on equal times, framed by the edge entries; integral "
                       "= sums over events strictly inside; avrg = ratio or 1; plottable = y/mp and "
                       "the unit-expansion smoothing model",
    }


def state_check(obj, model):
    c = H.canon("disc", obj)
    x, (y, mp) = model.expected()
    if list(c[0]) != x:
        return ("add.x", x, c[0], "entries are not: edge, one per distinct event time in "
                "increasing order, edge")
    if len(c[1]) != len(x) or len(c[2]) != len(x):
        return ("add.len", len(x), [len(c[1]), len(c[2])], "array lengths inconsistent")
    if any(abs(a - b) > TOL for a, b in zip(c[1][1:-1], y)) or \
            any(abs(a - b) > TOL for a, b in zip(c[2][1:-1], mp)):
        return ("add.values", {"y": y, "mp": mp}, {"y": c[1][1:-1], "mp": c[2][1:-1]},
                "values / multiplicities are not summed where both operands have an event and "
                "copied otherwise")
    try:
        v, m = obj.integral()
    except Exception as e:
        return ("integral.exception", "pair", "%s: %s" % (type(e).__name__, e), "integral raised")
    ve, me = model.integral()
    if abs(float(v) - float(ve)) > TOL or abs(float(m) - float(me)) > TOL:
        return ("integral.none", [float(ve), float(me)], [float(v), float(m)],
                "integral without interval does not sum all events")
    return None


def smooth_model(y, mp, k):
    """unit-expansion model of the smoothed plottable data"""
    if k == 0:
        return [a / b for a, b in zip(y, mp)]
    E = (k + 1) * int(mp[0])
    out = []
    n = len(y)
    for i in range(n):
        if mp[i] >= E:
            out.append(y[i] / mp[i])
            continue
        tot, cnt = y[i], mp[i]
        for rng in (range(i + 1, n), range(i - 1, -1, -1)):
            rem = E - mp[i]
            for j in rng:
                take = min(mp[j], rem)
                if mp[j] > 0:
                    tot += y[j] / mp[j] * take
                cnt += take
                rem -= take
                if rem <= 0:
                    break
        out.append(tot / cnt)
    return out


def check_function(r, L, name, args, model, be="py"):
    f = H.build("disc", args)
    snap = H.snapshot("disc", f)
    case0 = {"L": L, "function": name, "args": args}

    def viol(sub, extra, exp, obs, msg):
        r.violation(ID, sub, be, "%s/disc" % sub, dict(case0, **extra), exp, obs, msg,
                    (L, len(name)))

    pts = [T0 + j * U / 2 for j in range(2 * L + 1)]
    n2 = 2 * L
    ivs = [(a2, b2) for a2 in range(n2 + 1) for b2 in range(a2 + 1, n2 + 1)]
    for a2, b2 in ivs:
        r.evaluations += 1
        iv = [pts[a2], pts[b2]]
        try:
            v, m = f.integral(iv)
            av = float(f.avrg(iv))
            au = float(f.avrg(iv, normalize=False))
        except Exception as e:
            viol("integral.exception", {"interval": iv}, "a pair", "%s: %s" % (type(e).__name__, e),
                 "integral/avrg raised for an interval inside the support")
            return
        ve, me = model.integral(a2, b2)
        if abs(float(v) - float(ve)) > TOL or abs(float(m) - float(me)) > TOL:
            viol("integral", {"interval": iv}, [float(ve), float(me)], [float(v), float(m)],
                 "integral is not the sum over exactly the events strictly inside the interval")
            return
        ae = float(ve / me) if me > 0 else 1.0
        if abs(av - ae) > TOL or abs(au - float(ve)) > TOL:
            viol("avrg", {"interval": iv}, {"normalized": ae, "raw": float(ve)},
                 {"normalized": av, "raw": au}, "avrg is not the ratio (or 1 when no event inside)")
            return
    if L <= 3:
        for p in ivs:
            for q in ivs:
                if not (p[1] <= q[0] or q[1] <= p[0]):
                    continue
                r.evaluations += 1
                lst = [[pts[p[0]], pts[p[1]]], [pts[q[0]], pts[q[1]]]]
                try:
                    v, m = f.integral(lst)
                    av = float(f.avrg(lst))
                except Exception as e:
                    viol("integral.list.exception", {"intervals": lst}, "a pair",
                         "%s: %s" % (type(e).__name__, e), "integral over several intervals raised")
                    return
                v1, m1 = model.integral(*p)
                v2, m2 = model.integral(*q)
                ae = float((v1 + v2) / (m1 + m2)) if (m1 + m2) > 0 else 1.0
                if abs(float(v) - float(v1 + v2)) > TOL or abs(float(m) - float(m1 + m2)) > TOL \
                        or abs(av - ae) > TOL:
                    viol("integral.list", {"intervals": lst}, [float(v1 + v2), float(m1 + m2), ae],
                         [float(v), float(m), av], "several intervals do not add up")
                    return
    # whole
    try:
        v, m = f.integral()
        av = float(f.avrg())
    except Exception as e:
        viol("integral.exception", {"interval": None}, "a pair", "%s: %s" % (type(e).__name__, e),
             "integral() raised")
        return
    ve, me = model.integral()
    if abs(float(v) - float(ve)) > TOL or abs(float(m) - float(me)) > TOL or \
            abs(av - (float(ve / me) if me > 0 else 1.0)) > TOL:
        viol("integral.none", {}, [float(ve), float(me)], [float(v), float(m), av],
             "integral without interval does not sum all events")
        return
    # plottable
    x, y, mp = (list(map(float, a)) for a in args)
    for k in WINDOWS:
        r.evaluations += 1
        try:
            xp, yp = f.get_plottable_data(averaging_window_size=k) if k else f.get_plottable_data()
            xp, yp = np.asarray(xp, float).tolist(), np.asarray(yp, float).tolist()
        except Exception as e:
            viol("plottable.exception", {"window": k}, "arrays", "%s: %s" % (type(e).__name__, e),
                 "get_plottable_data raised")
            return
        ye = smooth_model(y, mp, k)
        if xp != x or len(yp) != len(ye) or any(abs(a - b) > TOL for a, b in zip(yp, ye)):
            viol("plottable", {"window": k}, {"x": x, "y": ye}, {"x": xp, "y": yp},
                 "plottable data are not y/mp (window 0) / the multiplicity-aware window mean")
            return
    if H.snapshot("disc", f) != snap:
        viol("modified", {}, "unchanged", H.canon("disc", f), "a read-only operation modified the "
             "profile")


def run_task(task):
    r = Result()
    L = task["L"]
    be = task["backend"]
    if task["mode"] == "integral":
        for i, (name, args, model) in enumerate(H.disc_menu(L)):
            if i % task["nshards"] != task["shard"]:
                continue
            r.states += 1
            r.transitions += 1
            r.traces += 1
            r.sigs.add(hash(model.key()) & 0xffffffffffff)
            check_function(r, L, name, args, model)
            if i % 11 == 0:
                r.sample({"function": name, "x": args[0], "y": args[1], "mp": args[2]})
        return r
    menu = H.disc_menu(L, max_events=task["maxev"])
    names = [n for n, _, _ in menu]
    inits = [n for i, n in enumerate(names) if i % task["nshards"] == task["shard"]]

    def viol(sub, hist, exp, obs, msg):
        r.violation(ID, sub, be, "%s/disc/%s" % (sub, be),
                    {"L": L, "maxev": task["maxev"], "history": hist}, exp, obs, msg,
                    (len(hist), len(str(hist))))

    def on_state(obj, model, hist):
        r.evaluations += 1
        r.traces += 1
        r.sigs.add(hash(model.key()) & 0xffffffffffff)
        bad = state_check(obj, model)
        if bad:
            viol(bad[0], hist, bad[1], bad[2], bad[3])
        if r.states % 199 == 1:
            r.sample({"history": hist, "state": H.canon("disc", obj)})

    H.explore("disc", menu, inits, names, SCALARS, task["depth"], r, on_state, viol)
    return r


def replay(rec):
    r = Result()
    c = rec["case"]
    be = rec["backend"]
    if "function" in c:
        for name, args, model in H.disc_menu(c["L"]):
            if name == c["function"]:
                check_function(r, c["L"], name, args, model)
        return r
    menu = H.disc_menu(c["L"], max_events=c.get("maxev"))
    by_name = {n: (a, m) for n, a, m in menu}
    hist = [tuple(h) if isinstance(h, list) else h for h in c["history"]]
    try:
        for i in range(1, len(hist) + 1):
            if hist[i - 1] == ("copy", None) or (i > 1 and hist[i - 1][0] == "copy"):
                pass
            obj, model = H.replay_history("disc", by_name, hist[:i])
            bad = state_check(obj, model)
            if bad:
                r.violation(ID, bad[0], be, rec["signature"], c, bad[1], bad[2], bad[3])
                return r
    except Exception as e:
        r.violation(ID, "exception", be, rec["signature"], c, "succeeds",
                    "%s: %s" % (type(e).__name__, e), "operation raised")
    return r
