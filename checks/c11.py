"""C11 - discrete profiles add by event and integrate over open intervals."""
import numpy as np

from mc import history as H
from mc.common import TOL, U, T0
from mc.runner import Result

ID = "C11"
LEVEL = "model_checking"
SCALARS = [2.0]
WINDOWS = [0, 1, 2, 3]


def grid_of(spec):
    return H.grid_of(spec)


def plan(tier):
    if tier == "quick":
        specs = [(("reg", 3), None, 3), (("reg", 4), None, 2), (("reg", 5), 3, 2),
                 (("reg", 6), 2, 1), (("near", 3), 3, 2), (("far", 3), None, 1),
                 (("tiny", 3), 3, 1)]
        Ls = [("reg", L) for L in (1, 2, 3, 4, 5)] + [("near", 3), ("far", 3), ("tiny", 3)]
    else:
        specs = [(("reg", 3), None, 3), (("reg", 4), None, 2), (("reg", 5), None, 2),
                 (("reg", 6), 3, 2), (("reg", 7), 2, 1), (("near", 3), None, 2),
                 (("near", 4), 2, 2), (("far", 4), None, 2)]
        Ls = [("reg", L) for L in (1, 2, 3, 4, 5, 6, 7)] + [("near", 3), ("near", 4)]
    tasks, desc = [], []
    for spec, maxev, depth in specs:
        n = len(H.disc_menu(grid_of(spec), H.DISC_PATTERNS[:2], max_events=maxev))
        nsh = max(1, min(32, n // 2))
        for be in ("py", "pyx"):
            for s in range(nsh):
                tasks.append({"mode": "history", "backend": be, "grid": list(spec), "maxev": maxev,
                              "depth": depth, "shard": s, "nshards": nsh})
        desc.append({"mode": "history", "grid": list(spec), "operand_menu": n,
                     "max_events_per_operand": maxev, "history_depth": depth})
    for spec in Ls:
        n = len(H.disc_menu(grid_of(spec)))
        nsh = max(1, min(16, n // 4))
        for s in range(nsh):
            tasks.append({"mode": "integral", "backend": "py", "grid": list(spec), "shard": s,
                          "nshards": nsh})
        desc.append({"mode": "integral/avrg/plottable", "grid": list(spec), "functions": n,
                     "intervals": "all a<b on the half-grid, all ordered pairs of them (<=3 cells)",
                     "averaging_window_size": WINDOWS})
    return {
        "tasks": tasks,
        "bounds": {"explorations": desc, "backends": ["py", "pyx-model (cython_add)"]},
        "rule": "history mode: breadth-first search over add(g)/mul_scalar/copy histories on live "
                "DiscreteFunc objects from every profile of the operand menu (all event subsets of "
                "the grid points incl. both edge points x two value/multiplicity patterns; 'near' "
                "grids add event times 2^-30 next to lattice points), deduplicated by exact model "
                "state; integral mode: every profile x every half-grid interval / pair of "
                "intervals x smoothing windows 0..3",
        "exhaustive": True,
        "assumptions": ["event times on the lattice, interval ends on the half-lattice",
                        "edge entries carry copies of the first/last event as the library builds "
                        "them; they are compared only where the statement gives them a meaning "
                        "(time axis, plottable data)",
                        "pyx configuration = rendered cython_add.pyx"],
        "explanation": "add: one entry per distinct event time, increasing, values and "
                       "multiplicities summed on equal times, framed by the edge entries; integral "
                       "= sums over events strictly inside; avrg = ratio or 1; plottable = y/mp and "
                       "the unit-expansion smoothing model",
    }


def state_check(obj, model):
    c = H.canon("disc", obj)
    x, (y, mp) = model.expected()
    if list(c[0]) != x:
        return ("add.x", x, c[0], "entries are not: edge, one per distinct event time in "
                "increasing order, edge")
    if len(c[1]) != len(x) or len(c[2]) != len(x):
        return ("add.len", len(x), [len(c[1]), len(c[2])], "array lengths inconsistent")
    if any(abs(a - b) > TOL for a, b in zip(c[1][1:-1], y)) or \
            any(abs(a - b) > TOL for a, b in zip(c[2][1:-1], mp)):
        return ("add.values", {"y": y, "mp": mp}, {"y": c[1][1:-1], "mp": c[2][1:-1]},
                "values / multiplicities are not summed where both operands have an event and "
                "copied otherwise")
    try:
        v, m = obj.integral()
    except Exception as e:
        return ("integral.exception", "pair", "%s: %s" % (type(e).__name__, e), "integral raised")
    ve, me = model.integral()
    if abs(float(v) - float(ve)) > TOL or abs(float(m) - float(me)) > TOL:
        return ("integral.none", [float(ve), float(me)], [float(v), float(m)],
                "integral without interval does not sum all events")
    return None


def smooth_model(y, mp, k):
    """unit-expansion model of the smoothed plottable data"""
    if k == 0:
        return [a / b for a, b in zip(y, mp)]
    E = (k + 1) * int(mp[0])
    out = []
    n = len(y)
    for i in range(n):
        if mp[i] >= E:
            out.append(y[i] / mp[i])
            continue
        tot, cnt = y[i], mp[i]
        for rng in (range(i + 1, n), range(i - 1, -1, -1)):
            rem = E - mp[i]
            for j in rng:
                take = min(mp[j], rem)
                if mp[j] > 0:
                    tot += y[j] / mp[j] * take
                cnt += take
                rem -= take
                if rem <= 0:
                    break
        out.append(tot / cnt)
    return out


def check_function(r, spec, name, args, model, be="py"):
    f = H.build("disc", args)
    snap = H.snapshot("disc", f)
    G = grid_of(spec)
    L = len(G) - 1
    case0 = {"grid": list(spec), "function": name, "args": args}

    def viol(sub, extra, exp, obs, msg):
        r.violation(ID, sub, be, "%s/disc" % sub, dict(case0, **extra), exp, obs, msg,
                    (L, len(name)))

    pts = [H.fpos(G, j) for j in range(2 * L + 1)]
    n2 = 2 * L
    ivs = [(a2, b2) for a2 in range(n2 + 1) for b2 in range(a2 + 1, n2 + 1)]
    for a2, b2 in ivs:
        r.evaluations += 1
        iv = [pts[a2], pts[b2]]
        try:
            v, m = f.integral(iv)
            av = float(f.avrg(iv))
            au = float(f.avrg(iv, normalize=False))
        except Exception as e:
            viol("integral.exception", {"interval": iv}, "a pair", "%s: %s" % (type(e).__name__, e),
                 "integral/avrg raised for an interval inside the support")
            return
        ve, me = model.integral(a2, b2)
        if abs(float(v) - float(ve)) > TOL or abs(float(m) - float(me)) > TOL:
            viol("integral", {"interval": iv}, [float(ve), float(me)], [float(v), float(m)],
                 "integral is not the sum over exactly the events strictly inside the interval")
            return
        ae = float(ve / me) if me > 0 else 1.0
        if abs(av - ae) > TOL or abs(au - float(ve)) > TOL:
            viol("avrg", {"interval": iv}, {"normalized": ae, "raw": float(ve)},
                 {"normalized": av, "raw": au}, "avrg is not the ratio (or 1 when no event inside)")
            return
    if L <= 3:
        for p in ivs:
            for q in ivs:
                if not (p[1] <= q[0] or q[1] <= p[0]):
                    continue
                r.evaluations += 1
                lst = [[pts[p[0]], pts[p[1]]], [pts[q[0]], pts[q[1]]]]
                try:
                    v, m = f.integral(lst)
                    av = float(f.avrg(lst))
                except Exception as e:
                    viol("integral.list.exception", {"intervals": lst}, "a pair",
                         "%s: %s" % (type(e).__name__, e), "integral over several intervals raised")
                    return
                v1, m1 = model.integral(*p)
                v2, m2 = model.integral(*q)
                ae = float((v1 + v2) / (m1 + m2)) if (m1 + m2) > 0 else 1.0
                if abs(float(v) - float(v1 + v2)) > TOL or abs(float(m) - float(m1 + m2)) > TOL \
                        or abs(av - ae) > TOL:
                    viol("integral.list", {"intervals": lst}, [float(v1 + v2), float(m1 + m2), ae],
                         [float(v), float(m), av], "several intervals do not add up")
                    return
    # whole
    try:
        v, m = f.integral()
        av = float(f.avrg())
    except Exception as e:
        viol("integral.exception", {"interval": None}, "a pair", "%s: %s" % (type(e).__name__, e),
             "integral() raised")
        return
    ve, me = model.integral()
    if abs(float(v) - float(ve)) > TOL or abs(float(m) - float(me)) > TOL or \
            abs(av - (float(ve / me) if me > 0 else 1.0)) > TOL:
        viol("integral.none", {}, [float(ve), float(me)], [float(v), float(m), av],
             "integral without interval does not sum all events")
        return
    # plottable
    x, y, mp = (list(map(float, a)) for a in args)
    for k in WINDOWS:
        r.evaluations += 1
        try:
            xp, yp = f.get_plottable_data(averaging_window_size=k) if k else f.get_plottable_data()
            xp, yp = np.asarray(xp, float).tolist(), np.asarray(yp, float).tolist()
        except Exception as e:
            viol("plottable.exception", {"window": k}, "arrays", "%s: %s" % (type(e).__name__, e),
                 "get_plottable_data raised")
            return
        ye = smooth_model(y, mp, k)
        if xp != x or len(yp) != len(ye) or any(abs(a - b) > TOL for a, b in zip(yp, ye)):
            viol("plottable", {"window": k}, {"x": x, "y": ye}, {"x": xp, "y": yp},
                 "plottable data are not y/mp (window 0) / the multiplicity-aware window mean")
            return
    if H.snapshot("disc", f) != snap:
        viol("modified", {}, "unchanged", H.canon("disc", f), "a read-only operation modified the "
             "profile")


def run_task(task):
    r = Result()
    spec = tuple(task["grid"])
    G = grid_of(spec)
    be = task["backend"]
    if task["mode"] == "integral":
        for i, (name, args, model) in enumerate(H.disc_menu(G)):
            if i % task["nshards"] != task["shard"]:
                continue
            r.states += 1
            r.transitions += 1
            r.traces += 1
            r.sigs.add(hash(model.key()) & 0xffffffffffff)
            check_function(r, spec, name, args, model)
            if i % 11 == 0:
                r.sample({"function": name, "x": args[0], "y": args[1], "mp": args[2]})
        return r
    menu = H.disc_menu(G, H.DISC_PATTERNS[:2], max_events=task["maxev"])
    names = [n for n, _, _ in menu]
    inits = [n for i, n in enumerate(names) if i % task["nshards"] == task["shard"]]

    def viol(sub, hist, exp, obs, msg):
        case = {"grid": list(spec), "maxev": task["maxev"]}
        if isinstance(hist, dict):
            case.update(hist)
        else:
            case["history"] = hist
        r.violation(ID, sub, be, "%s/disc/%s/%s" % (sub, spec[0], be), case, exp, obs, msg,
                    (len(str(hist)),))

    def on_state(obj, model, hist):
        r.evaluations += 1
        r.traces += 1
        r.sigs.add(hash(model.key()) & 0xffffffffffff)
        bad = state_check(obj, model)
        if bad:
            viol(bad[0], hist, bad[1], bad[2], bad[3])
        if r.states % 199 == 1:
            r.sample({"history": hist, "state": H.canon("disc", obj)})

    H.explore("disc", menu, inits, names, SCALARS, task["depth"], r, on_state, viol)
    return r


def replay(rec):
    r = Result()
    c = rec["case"]
    be = rec["backend"]
    spec = tuple(c["grid"])
    G = grid_of(spec)
    if "function" in c:
        for name, args, model in H.disc_menu(G):
            if name == c["function"]:
                check_function(r, spec, name, args, model)
        return r
    menu = H.disc_menu(G, H.DISC_PATTERNS[:2], max_events=c.get("maxev"))
    names = [n for n, _, _ in menu]
    by_name = {n: (a, m) for n, a, m in menu}
    found = H.replay_checks("disc", menu, c["history"], names[0], state_check)
    if "other_history" in c:
        found += H.replay_checks("disc", menu, c["other_history"], names[0], state_check)
        o1, _ = H.replay_history("disc", by_name, H.norm_hist(c["history"]))
        o2, _ = H.replay_history("disc", by_name, H.norm_hist(c["other_history"]))
        if not H._canon_close(H.canon("disc", o1), H.canon("disc", o2), "disc"):
            found.append(("order_dependence", H.canon("disc", o2), H.canon("disc", o1),
                          "two histories denoting the same profile produced different objects"))
    for sub, exp, obs, msg in found:
        r.violation(ID, sub, be, rec["signature"], c, exp, obs, msg)
    return r
