"""C20 - merging and histogramming conserve every spike; Poisson trains are well-formed."""
from fractions import Fraction

import numpy as np

from mc import lattice, pairs
from mc.common import TOL, U, T0
from mc.runner import Result

ID = "C20"
LEVEL = "model_checking"


def bin_sizes(k):
    """all half-lattice bin sizes not larger than the recording, plus two odd ones"""
    out = [j * U / 2 for j in range(1, 2 * k + 1)]
    out += [k * U / 3.0, 0.3 * U] if k >= 1 else []
    return [b for b in out if b <= k * U]


def plan(tier):
    if tier == "quick":
        specs = [(1, [("dense", 1, 6)]), (2, [("dense", 1, 5)]), (3, [("dense", 1, 3)]),
                 (4, [("dense", 1, 2)])]
    else:
        specs = [(1, [("dense", 1, 9)]), (2, [("dense", 1, 7)]), (3, [("dense", 1, 4)]),
                 (4, [("dense", 1, 3)])]
    tasks, descs = [], []
    for N, regimes in specs:
        tasks += pairs.regime_tasks(N, regimes, ["py"], extra={"mode": "lattice"}, nshards=32)
        d, _ = pairs.describe_regimes(regimes, N)
        for x in d:
            x["bin_sizes"] = "every half-lattice size <= recording plus recording/3 and 0.3u"
        descs += d
    tasks.append({"backend": "py", "mode": "poisson", "depth": 12 if tier == "quick" else 16})
    descs.append({"mode": "poisson", "environment": "np.random.exponential replaced by a scripted "
                  "source; every answer sequence over {T/8, 3T/8, 3T/2} until the generator "
                  "terminates (refill path included)", "rates": [0.25, 0.5, 1.0, 2.5],
                  "intervals": ["[0.5, 4.5]", "4.0 (scalar)", "[-2.0, 2.0]"]})
    return {
        "tasks": tasks,
        "bounds": {"explorations": descs, "lattice": {"t0": T0, "u": U}},
        "rule": "breadth-first enumeration of all ordered N-tuples (N=2,3,4) of lattice spike trains "
                "(duplicates across trains and empty trains included) for merge and PSTH with all "
                "stated bin sizes; for the Poisson generator a depth-first enumeration of every "
                "sequence of environment answers (scripted random source) until termination; "
                "non-trivial = at least two trains carry spikes / at least one spike generated",
        "exhaustive": True,
        "assumptions": ["spike times on the dyadic lattice",
                        "the random source is owned by the harness (np.random.exponential is "
                        "patched in the harness process, no repository hook)",
                        "backend-independent code"],
        "explanation": "merge = sorted multiset union on the first train's interval, inputs "
                       "unchanged; PSTH = equally wide bins spanning the recording with exact "
                       "integer counts (last bin closed), summing to the number of spikes; Poisson "
                       "trains = T_start + cumulative scripted intervals strictly below T_end, "
                       "sorted, carrying the edges",
    }


def eval_lattice(r, trains, edges, be="py", rank=()):
    import pyspike as spk
    ts, te = edges
    n = len(trains)
    sts = [spk.SpikeTrain(t, edges) for t in trains]
    case = {"trains": trains, "edges": edges}
    before = [(s.spikes.tobytes(), s.t_start, s.t_end) for s in sts]
    r.evaluations += 1
    r.traces += 1
    # ---- merge
    try:
        m = spk.merge_spike_trains(sts)
        got = np.asarray(m.spikes, float).tolist()
        ged = [m.t_start, m.t_end]
    except Exception as e:
        r.violation(ID, "merge.exception", be, "merge.exception", case, "a train",
                    "%s: %s" % (type(e).__name__, e), "merge_spike_trains raised", rank)
        got = None
    if got is not None:
        exp = sorted(t for tr in trains for t in tr)
        if got != exp or ged != [ts, te]:
            r.violation(ID, "merge", be, "merge", case, {"spikes": exp, "edges": [ts, te]},
                        {"spikes": got, "edges": ged},
                        "merged train is not the sorted multiset union on the first train's "
                        "interval", rank)
    if [(s.spikes.tobytes(), s.t_start, s.t_end) for s in sts] != before:
        r.violation(ID, "merge.modifies", be, "merge.modifies", case, "inputs unchanged",
                    [s.spikes.tolist() for s in sts], "merge modified its inputs", rank)
        return
    # ---- psth
    k = int(round((te - ts) / U))
    alls = [t for tr in trains for t in tr]
    for b in bin_sizes(k):
        r.evaluations += 1
        c2 = dict(case, bin_size=b)
        try:
            p = spk.psth(sts, b)
            x = np.asarray(p.x, float)
            y = np.asarray(p.y, float)
        except Exception as e:
            r.violation(ID, "psth.exception", be, "psth.exception", c2, "a function",
                        "%s: %s" % (type(e).__name__, e), "psth raised for a bin size not larger "
                        "than the recording", rank)
            continue
        nb = len(y)
        T = Fraction(te) - Fraction(ts)
        ok = nb >= 1 and len(x) == nb + 1 and x[0] == ts and x[-1] == te
        if ok:
            w = np.diff(x)
            ok = bool(np.all(np.abs(w - float(T / nb)) <= 1e-12))
        if ok:
            counts = [0] * nb
            for t in alls:
                j = int((Fraction(t) - Fraction(ts)) / (T / nb))
                j = min(j, nb - 1)          # last bin is closed
                counts[j] += 1
            ok = y.tolist() == [float(c) for c in counts] and sum(counts) == len(alls)
        else:
            counts = None
        if not ok:
            r.violation(ID, "psth", be, "psth", c2,
                        {"bins": "equally wide, spanning the recording", "counts": counts,
                         "total": len(alls)}, {"x": x, "y": y},
                        "PSTH is not the per-bin spike count on equally wide bins spanning the "
                        "recording (sum = number of spikes)", rank)
    # the same objects once more: an earlier call must not have changed what a later one sees
    try:
        m2 = np.asarray(spk.merge_spike_trains(sts).spikes, float).tolist()
        if m2 != sorted(alls):
            r.violation(ID, "merge.second_call", be, "merge.second_call", case, sorted(alls), m2,
                        "merging the same trains again after psth gives a different result", rank)
    except Exception as e:
        r.violation(ID, "merge.exception", be, "merge.exception.second", case, "a train",
                    "%s: %s" % (type(e).__name__, e), "second merge raised", rank)
    if [(s.spikes.tobytes(), s.t_start, s.t_end) for s in sts] != before:
        r.violation(ID, "psth.modifies", be, "psth.modifies", case, "inputs unchanged",
                    [s.spikes.tolist() for s in sts], "psth modified its inputs", rank)


class _NeedMore(Exception):
    pass


def eval_poisson(r, rate, interval, script, rank=()):
    """run the generator with the scripted random source; returns 'more' when the
    script was too short"""
    import pyspike as spk
    pos = [0]

    def scripted(scale, size=None):
        n = 1 if size is None else int(size)
        if pos[0] + n > len(script):
            raise _NeedMore(pos[0] + n)
        out = np.array(script[pos[0]:pos[0] + n], dtype=float)
        pos[0] += n
        return out if size is not None else float(out[0])

    orig = np.random.exponential
    np.random.exponential = scripted
    try:
        try:
            st = spk.generate_poisson_spikes(rate, interval)
        except _NeedMore as e:
            return int(str(e))
    except Exception as e:
        r.violation(ID, "poisson.exception", "py", "poisson.exception",
                    {"rate": rate, "interval": interval, "answers": list(script)}, "a train",
                    "%s: %s" % (type(e).__name__, e), "generate_poisson_spikes raised", rank)
        return None
    finally:
        np.random.exponential = orig
    r.evaluations += 1
    r.traces += 1
    try:
        ts, te = float(interval[0]), float(interval[1])
    except TypeError:
        ts, te = 0.0, float(interval)
    used = script[:pos[0]]
    exp = []
    acc = Fraction(ts)
    for v in used:
        acc += Fraction(v)
        if acc < Fraction(te):
            exp.append(float(acc))
    got = np.asarray(st.spikes, float).tolist()
    ok = got == exp and all(ts < t < te for t in got) and \
        all(b > a for a, b in zip(got[:-1], got[1:])) and (st.t_start, st.t_end) == (ts, te)
    # the generator must have drawn enough intervals to cover the recording
    ok = ok and float(acc) >= te
    if not ok:
        r.violation(ID, "poisson", "py", "poisson",
                    {"rate": rate, "interval": interval, "answers": list(used)},
                    {"spikes": exp, "edges": [ts, te]},
                    {"spikes": got, "edges": [st.t_start, st.t_end]},
                    "generated train is not sorted / not strictly inside the interval / does not "
                    "carry its edges / drops or invents spikes", rank)
    r.outcomes.add((rate, str(interval), len(got)))
    return None


def run_poisson(task):
    r = Result()
    depth = task["depth"]
    for interval in ([0.5, 4.5], 4.0, [-2.0, 2.0]):
        T = 4.0
        alphabet = [T / 8, 3 * T / 8, 3 * T / 2]
        for rate in (0.25, 0.5, 1.0, 2.5):
            stack = [[]]
            while stack:
                script = stack.pop()
                r.states += 1
                need = eval_poisson(r, rate, interval, script, (len(script),))
                if need is not None:
                    if need > depth + 12:
                        r.count("depth_cap_hit")
                        continue
                    # extend by one answer (the generator asks for blocks; feed value by value)
                    for a in alphabet:
                        r.transitions += 1
                        # keep the tree finite: once the sum exceeds the interval only the
                        # smallest answer is used as padding for the remaining block
                        if sum(script) >= T and a != alphabet[0]:
                            continue
                        stack.append(script + [a])
                else:
                    r.sigs.add(hash((rate, str(interval), tuple(script))))
                    if len(r.samples) < 3:
                        r.sample({"mode": "poisson", "rate": rate, "interval": interval,
                                  "answers": script})
    return r


def check_state(r, k, masks, task):
    trains, edges = pairs.trains_edges(k, masks)
    eval_lattice(r, trains, edges, "py", (k, pairs.nspikes(masks)))
    if r.states % 499 == 1:
        r.sample({"trains": trains, "edges": edges, "bin_sizes": bin_sizes(k)})


def run_task(task):
    if task["mode"] == "poisson":
        return run_poisson(task)
    return pairs.run_states(task, check_state, ID)


def replay(rec):
    r = Result()
    c = rec["case"]
    if "answers" in c:
        eval_poisson(r, c["rate"], c["interval"], c["answers"], ())
    else:
        eval_lattice(r, c["trains"], c["edges"], "py", ())
    return r
