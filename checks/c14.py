"""C14 - all call forms and index selections of a measure agree."""
from itertools import permutations, combinations

import numpy as np

from mc import lattice, pairs
from mc.common import TOL, U, T0
from mc.measures import _prof, _lst, obs_close
from mc.runner import Result

ID = "C14"
LEVEL = "model_checking"


def selections(n):
    out = []
    for size in range(2, n + 1):
        for comb in combinations(range(n), size):
            for perm in permutations(comb):
                out.append(list(perm))
    return out


SEL3_SOME = [[0, 1], [1, 0], [1, 2], [2, 0], [0, 1, 2], [2, 0, 1]]
SEL4_SOME = [[1, 0], [2, 3], [3, 1], [1, 2, 3], [3, 0, 2], [2, 1, 0], [0, 1, 2, 3], [1, 3, 0, 2]]

KW_FULL = [{}, {"MRTS": 2 * U}, {"RI": True, "MRTS": 1.5 * U}, {"max_tau": U, "MRTS": 6 * U},
           {"interval": "mid"}, {"MRTS": "auto"}, {"interval": "late", "max_tau": U},
           {"interval": "seq", "RI": True}]
KW_SOME = [{}, {"max_tau": U, "MRTS": 6 * U, "RI": True}, {"interval": "mid", "MRTS": 2 * U},
           {"interval": "seq"}]


def measures():
    """(name, takes_star_args, fn_list(list, **kw), fn_star(*trains, **kw), kinds of kwargs)"""
    import pyspike as spk
    M = []

    def add(name, f, star, kws, conv):
        M.append((name, f, star, kws, conv))
    add("isi_profile", spk.isi_profile, True, {"MRTS"}, _prof)
    add("isi_distance", spk.isi_distance, True, {"MRTS", "interval"}, float)
    add("isi_distance_matrix", spk.isi_distance_matrix, False, {"MRTS", "interval"}, _lst)
    add("spike_profile", spk.spike_profile, True, {"MRTS", "RI"}, _prof)
    add("spike_distance", spk.spike_distance, True, {"MRTS", "RI", "interval"}, float)
    add("spike_distance_matrix", spk.spike_distance_matrix, False, {"MRTS", "RI", "interval"}, _lst)
    add("spike_sync_profile", spk.spike_sync_profile, True, {"MRTS", "max_tau"}, _prof)
    add("spike_sync", spk.spike_sync, True, {"MRTS", "max_tau", "interval"}, float)
    add("spike_sync_matrix", spk.spike_sync_matrix, False, {"MRTS", "max_tau", "interval"}, _lst)
    add("spike_train_order_profile", spk.spike_train_order_profile, True, {"MRTS", "max_tau"}, _prof)
    add("spike_train_order", spk.spike_train_order, True, {"MRTS", "max_tau"}, float)
    add("spike_directionality_values", spk.spike_directionality_values, True, {"MRTS", "max_tau"},
        lambda v: [_lst(a) for a in v])
    add("spike_directionality_matrix", spk.spike_directionality_matrix, False, {"MRTS", "max_tau"},
        _lst)
    return M


def plan(tier):
    if tier == "quick":
        specs = [(3, [("dense", 1, 2)], "all", KW_FULL[2:6] + KW_FULL[7:], True),
                 (3, [("bounded", 2, 3, 3)], "some", KW_SOME[:3], True),
                 (4, [("dense", 1, 1), ("bounded", 2, 2, 2)], "some", KW_SOME[:2], True),
                 (4, [("bounded", 1, 3, 4)], "some", KW_SOME[:2], True)]
    else:
        specs = [(3, [("dense", 1, 3)], "all", KW_FULL, True),
                 (3, [("dense", 1, 2)], "some", KW_SOME[:2], False),
                 (4, [("dense", 1, 2)], "all", KW_SOME[:2], True),
                 (4, [("bounded", 2, 3, 3)], "some", KW_SOME[:2], True),
                 (4, [("bounded", 1, 4, 4)], "some", KW_SOME[:2], True)]
    tasks, descs = [], []
    for N, regimes, sel, kws, distinct in specs:
        tasks += pairs.regime_tasks(N, regimes, ["py", "pyx"],
                                    extra={"sel": sel, "kws": kws, "distinct": distinct},
                                    nshards=48)
        d, _ = pairs.describe_regimes(regimes, N)
        for x in d:
            x["index_selections"] = ("all ordered selections of size >= 2 (%d)" % len(selections(N))
                                     if sel == "all" else "menu of %d" %
                                     len(SEL3_SOME if N == 3 else SEL4_SOME))
            x["keyword_menu"] = kws
            x["only_pairwise_different_trains"] = distinct
        descs += d
    return {
        "tasks": tasks,
        "bounds": {"regimes": descs, "measures": 13, "lattice": {"t0": T0, "u": U},
                   "backends": ["py", "pyx-model"]},
        "rule": "breadth-first enumeration of ordered N-tuples (N=3,4) of lattice spike trains "
                "(quick: tuples of pairwise different trains, where an index confusion is "
                "observable), times ordered `indices` selections of size >= 2, times 13 measures, "
                "times the keyword menu (MRTS, RI, max_tau, interval, 'auto'); non-trivial = at "
                "least two trains carry spikes",
        "exhaustive": True,
        "assumptions": ["spike times on the dyadic lattice; all trains of a list share the edges",
                        "MRTS='auto' is compared only between forms that pass the same set of "
                        "trains: with a strict subset selected through `indices` the library "
                        "resolves 'auto' from the whole list (checked in C15)",
                        "pyx configuration = rendered .pyx sources"],
        "explanation": "differential: f(list, indices=idx) == f(sub) == f(*sub) with sub = "
                       "[list[i] for i in idx]; for two trains f(a,b) == f([a,b]) == "
                       "f(list, indices=[i,j]); matrices compared entry-wise incl. orientation",
    }


def _kw(kw, edges):
    out = dict(kw)
    if "interval" in out:
        ts, te = edges
        T = te - ts
        out["interval"] = {"mid": [ts + T / 4, te - T / 4], "late": [ts + T / 2, te],
                           "seq": [[ts, ts + T / 4], [ts + T / 2, te]]}[out["interval"]]
    return out


def evaluate(r, trains, edges, idx, name, kw, be, rank=()):
    import pyspike as spk
    f, star, kinds, conv = MEAS[name]
    kw = {k: v for k, v in kw.items() if k in kinds}
    sts = [spk.SpikeTrain(t, edges) for t in trains]
    sub = [sts[i] for i in idx]
    case = {"trains": trains, "edges": edges, "indices": idx, "measure": name, "kwargs": kw}
    kwr = _kw(kw, edges)
    auto = kwr.get("MRTS") == "auto"
    r.evaluations += 1
    res = {}
    forms = [("indices", lambda: f(sts, indices=idx, **kwr)), ("sublist", lambda: f(sub, **kwr))]
    if rank and rank[-1] == 0 and rank[-2] % 3 == 0:
        # the selection given as a tuple / as a numpy array (first keyword setting only)
        forms.append(("indices as tuple", lambda: f(sts, indices=tuple(idx), **kwr)))
        forms.append(("indices as numpy array", lambda: f(sts, indices=np.array(idx), **kwr)))
    if star:
        forms.append(("separate arguments", lambda: f(*sub, **kwr)))
    for nm, call in forms:
        try:
            res[nm] = conv(call())
        except Exception as e:
            res[nm] = "EXC %s: %s" % (type(e).__name__, e)
    ref = res["sublist"]
    if isinstance(ref, str) and all(isinstance(v, str) for v in res.values()):
        # e.g. an interval on a measure that does not support it: every form must refuse
        return
    sig = "%s/%s/%s" % (name, "auto" if auto else ("interval" if "interval" in kw else "plain"), be)
    for nm in res:
        if nm == "sublist":
            continue
        if auto and nm.startswith("indices") and len(idx) < len(trains):
            continue
        if isinstance(res[nm], str) or isinstance(ref, str) or not obs_close(res[nm], ref, TOL):
            r.violation(ID, "forms", be, "forms/%s/%s" % (nm.split()[0], sig),
                        dict(case, form=nm), {"sublist": ref}, {nm: res[nm]},
                        "call form '%s' disagrees with passing the selected sub-list" % nm, rank)
            return
    r.outcomes.add((name, str(ref)[:60]))


MEAS = {}


def _meas():
    if not MEAS:
        for name, f, star, kinds, conv in measures():
            MEAS[name] = (f, star, kinds, conv)
    return MEAS


def check_state(r, k, masks, task):
    if task["distinct"] and len(set(masks)) < len(masks):
        return
    _meas()
    trains, edges = pairs.trains_edges(k, masks)
    ns = pairs.nspikes(masks)
    n = len(masks)
    sels = selections(n) if task["sel"] == "all" else (SEL3_SOME if n == 3 else SEL4_SOME)
    for si, idx in enumerate(sels):
        for ki, kw in enumerate(task["kws"]):
            for mi, name in enumerate(MEAS):
                evaluate(r, trains, edges, idx, name, kw, task["backend"], (k, ns, len(idx), si, ki))
    if r.states % 199 == 1:
        r.sample({"trains": trains, "edges": edges, "selections": len(sels)})


def run_task(task):
    return pairs.run_states(task, check_state, ID)


def replay(rec):
    r = Result()
    _meas()
    c = rec["case"]
    kw = dict(c["kwargs"])
    if "interval" in kw and not isinstance(kw["interval"], str):
        ts, te = c["edges"]
        T = te - ts
        kw["interval"] = "mid" if abs(kw["interval"][0] - (ts + T / 4)) < 1e-12 else "late"
    evaluate(r, c["trains"], c["edges"], c["indices"], c["measure"], kw, rec["backend"],
             tuple(rec.get("rank", ())))
    return r
