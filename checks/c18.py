"""C18 - every valid input yields a finite, well-formed result without error."""
import math

from mc import lattice, pairs
from mc.common import U, T0
from mc.measures import entry_points, accepts
from mc.runner import Result

ID = "C18"
LEVEL = "model_checking"

KW_Q = [{}, {"MRTS": 2 * U}, {"MRTS": "auto"}, {"max_tau": U, "MRTS": 6 * U}, {"RI": True, "MRTS": 1.5 * U},
        {"interval": "mid"}, {"interval": "first", "max_tau": 0.5 * U},
        {"MRTS": "auto", "Reconcile": False}]
KW_T = KW_Q + [{"MRTS": 40 * U}, {"max_tau": 2 * U}, {"RI": True}, {"interval": "last", "MRTS": "auto"},
               {"MRTS": 0.5 * U, "max_tau": 3 * U}]

INTERVAL_OK = ("isi_distance", "spike_distance", "spike_sync(", "spike_sync_multi", "spike_sync_matrix")


def takes_interval(name):
    return name.startswith(INTERVAL_OK)


def plan(tier):
    if tier == "quick":
        specs = [(2, [("dense", 1, 4)], KW_Q), (2, [("dense", 5, 5)], KW_Q[:5]), (3, [("dense", 1, 3)], KW_Q[:5]),
                 (4, [("dense", 1, 2)], KW_Q[:4])]
    else:
        specs = [(2, [("dense", 1, 6)], KW_T), (2, [("bounded", 3, 7, 8)], KW_Q[:5]),
                 (3, [("dense", 1, 4)], KW_Q[:5]), (4, [("dense", 1, 2), ("bounded", 2, 3, 3)], KW_Q[:4])]
    tasks, descs = [], []
    for N, regimes, kws in specs:
        tasks += pairs.regime_tasks(N, regimes, ["py", "pyx"], extra={"kws": kws}, nshards=48)
        d, _ = pairs.describe_regimes(regimes, N)
        for x in d:
            x["keyword_menu"] = kws
        descs += d
    return {
        "tasks": tasks,
        "bounds": {"regimes": descs, "entry_points": "34 call forms + 24 list forms with `indices` "
                                                     "given as numpy array / tuple", "lattice": {"t0": T0, "u": U},
                   "backends": ["py", "pyx-model"]},
        "rule": "breadth-first enumeration of all ordered N-tuples (N=2,3,4) of lattice spike trains "
                "- every combination of empty, one-spike, edge-spike and identical trains is a "
                "state - times 34 public entry points (all call forms), times the keyword menu "
                "incl. sub-intervals; non-trivial = at least two trains carry spikes",
        "exhaustive": True,
        "assumptions": ["spike times on the dyadic lattice", "pyx configuration = rendered .pyx "
                        "sources; an out-of-bounds access of the model is undefined behaviour of "
                        "the compiled code and counts as a violation"],
        "explanation": "no exception; time axis starts at t_start, ends at t_end, strictly "
                       "increasing (discrete: non-decreasing with both edge entries); consistent "
                       "array lengths; all values, scalars and matrix entries finite",
    }


def _finite(v):
    if isinstance(v, (list, tuple)):
        return all(_finite(x) for x in v)
    if isinstance(v, dict):
        return all(_finite(x) for x in v.values())
    if isinstance(v, float):
        return math.isfinite(v)
    return True


def wellformed(obs, ts, te):
    """returns None or a message"""
    if isinstance(obs, dict) and "x" in obs:
        x = obs["x"]
        if len(x) < 2 or x[0] != ts or x[-1] != te:
            return "time axis does not start at t_start and end at t_end"
        if "mp" in obs:
            if any(b < a for a, b in zip(x[:-1], x[1:])):
                return "discrete profile times decrease"
            if not (len(obs["y"]) == len(x) == len(obs["mp"])):
                return "discrete profile arrays have inconsistent lengths"
        else:
            if any(b <= a for a, b in zip(x[:-1], x[1:])):
                return "time axis not strictly increasing"
            for k in ("y", "y1", "y2"):
                if k in obs and len(obs[k]) != len(x) - 1:
                    return "profile arrays have inconsistent lengths"
    if not _finite(obs):
        return "result contains non-finite values"
    return None


ENTRIES = []


def index_entries():
    """list forms with the `indices` selection given as a numpy array and as a tuple"""
    import numpy as np
    import pyspike as spk
    from mc.measures import _prof, _lst
    E = []
    for nm, f, conv in (("isi_profile", spk.isi_profile, _prof), ("spike_profile", spk.spike_profile, _prof),
                        ("spike_sync_profile", spk.spike_sync_profile, _prof),
                        ("spike_train_order_profile", spk.spike_train_order_profile, _prof),
                        ("isi_distance", spk.isi_distance, float),
                        ("spike_distance", spk.spike_distance, float),
                        ("spike_sync", spk.spike_sync, float),
                        ("spike_train_order", spk.spike_train_order, float),
                        ("isi_distance_matrix", spk.isi_distance_matrix, _lst),
                        ("spike_sync_matrix", spk.spike_sync_matrix, _lst),
                        ("spike_directionality_values", spk.spike_directionality_values,
                         lambda v: [_lst(a) for a in v]),
                        ("spike_directionality_matrix", spk.spike_directionality_matrix, _lst)):
        for tn, mk in (("ndarray", lambda n: np.array([n - 1, 0])), ("tuple", lambda n: (0, n - 1))):
            E.append(("%s(list, indices=%s)" % (nm, tn), 2,
                      (lambda s, f=f, conv=conv, mk=mk, **kw: conv(f(s, indices=mk(len(s)), **kw)))))
    return E


def evaluate(r, trains, edges, kws, be, rank=(), only=None):
    import pyspike as spk
    global ENTRIES
    if not ENTRIES:
        ENTRIES = entry_points() + index_entries()
    ts, te = edges
    T = te - ts
    ivmap = {"mid": [ts + T / 4, te - T / 4], "first": [ts, ts + T / 2], "last": [ts + T / 2, te]}
    cls = "N%d" % len(trains) + ("/" + pairs.classes(trains, ts, te) if len(trains) == 2 else "")
    # the same SpikeTrain objects serve all calls of this state: no function may leave them in
    # a condition that makes a later call fail (also with reconciliation switched off)
    shared = [spk.SpikeTrain(t, edges) for t in trains]
    for name, _, fn in ENTRIES:
        if only and name != only:
            continue
        for ki, kw in enumerate(kws):
            if "indices=" in name and ki not in (0, 2):
                continue
            kw2 = dict(kw)
            if "interval" in kw2:
                if not takes_interval(name):
                    continue
                kw2["interval"] = ivmap[kw2["interval"]]
            if not accepts(name, kw2):
                continue
            sts = shared
            case = {"trains": trains, "edges": edges, "entry": name, "kwargs": kw}
            if kw.get("Reconcile") is False:
                kw2["Reconcile"] = False
            r.evaluations += 1
            try:
                obs = fn(sts, **kw2)
            except Exception as e:
                r.violation(ID, "exception", be, "exception/%s/%s/%s" % (name, be, cls), case,
                            "a result", "%s: %s" % (type(e).__name__, e),
                            "public function raised on valid input", rank)
                continue
            msg = wellformed(obs, ts, te)
            if msg:
                r.violation(ID, "malformed", be, "malformed/%s/%s/%s" % (name, be, cls), case,
                            "finite, well-formed result", obs, msg, rank)


def check_state(r, k, masks, task):
    trains, edges = pairs.trains_edges(k, masks)
    ns = pairs.nspikes(masks)
    evaluate(r, trains, edges, task["kws"], task["backend"], (k, ns))
    if r.states % 499 == 1:
        r.sample({"trains": trains, "edges": edges})


def run_task(task):
    return pairs.run_states(task, check_state, ID)


def replay(rec):
    r = Result()
    c = rec["case"]
    evaluate(r, c["trains"], c["edges"], [c["kwargs"]], rec["backend"], tuple(rec.get("rank", ())),
             only=c["entry"])
    return r
