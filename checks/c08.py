"""C08 - time shift and scaling leave results unchanged; time reversal mirrors them."""
import numpy as np

from mc import lattice, pairs
from mc.measures import observe, scale_kw
from mc.common import TOL, U, T0
from mc.runner import Result

ID = "C08"
LEVEL = "model_checking"

CONF_Q = [("isi", {}), ("isi", {"MRTS": 2 * U}), ("spike", {}), ("spike", {"MRTS": 1.5 * U, "RI": True}),
          ("sync", {}), ("sync", {"max_tau": U, "MRTS": 6 * U}), ("order", {}),
          ("order", {"max_tau": U}), ("isi", {"MRTS": "auto"}), ("spike", {"MRTS": "auto"}),
          ("sync", {"MRTS": "auto"})]
CONF_T = CONF_Q + [("isi", {"MRTS": 40 * U}), ("spike", {"RI": True}), ("spike", {"MRTS": 3 * U}),
                   ("sync", {"max_tau": 0.5 * U}), ("sync", {"MRTS": 12 * U}),
                   ("order", {"MRTS": 8 * U}), ("order", {"MRTS": "auto"})]

# (kind, parameter, exact?)  exact: results must be bit-identical
TRANSFORMS = [("shift", 3 * U, True), ("shift", -(2.5 * U + T0), True), ("shift", 1024.0, True),
              ("shift", 2.0 ** 27, True),      # far from the origin (skipped where not exact)
              ("scale", 0.5, True), ("scale", 2.0, True), ("scale", 3.0, False),
              ("scale", 2.0 ** -8, True), ("reflect", None, False)]


TRANSFORMS_Q = [TRANSFORMS[1], TRANSFORMS[3], TRANSFORMS[4], TRANSFORMS[6], TRANSFORMS[8]]


def plan(tier):
    tf = TRANSFORMS_Q if tier == "quick" else TRANSFORMS
    if tier == "quick":
        specs = [(2, [("dense", 1, 4)], CONF_Q), (2, [("dense", 5, 5)], CONF_Q[::2] + [CONF_Q[5]]),
                 (3, [("dense", 1, 3)], CONF_Q[::2] + CONF_Q[8:9]),
                 (2, [("near", 2, 3)], CONF_Q[::2]), (3, [("near", 2, 2)], CONF_Q[4:8])]
    else:
        specs = [(2, [("dense", 1, 5)], CONF_T), (2, [("dense", 6, 6)], CONF_Q[::2] + [CONF_Q[5]]),
                 (2, [("bounded", 3, 7, 9)], CONF_Q[::2]),
                 (3, [("dense", 1, 4)], CONF_Q[::2]),
                 (2, [("near", 2, 3)], CONF_Q), (2, [("near", 4, 4)], CONF_Q[::3]),
                 (3, [("near", 2, 2)], CONF_Q[4:8])]
    tasks, descs = [], []
    for N, regimes, conf in specs:
        tasks += pairs.regime_tasks(N, regimes, ["py", "pyx"], extra={"conf": conf, "tf": tf})
        d, _ = pairs.describe_regimes(regimes, N)
        for x in d:
            x["measure_configurations"] = conf
            x["transformations"] = tf
        descs += d
    return {
        "tasks": tasks,
        "bounds": {"regimes": descs, "lattice": {"t0": T0, "u": U},
                   "backends": ["py", "pyx-model"]},
        "rule": "breadth-first enumeration of all ordered pairs and triples of lattice spike trains, "
                "times the measure configurations, times the transformation menu (3 shifts, 4 "
                "scale factors, reflection about the recording midpoint - an involution of the "
                "lattice, so the explored set is closed); non-trivial = at least two trains spike",
        "exhaustive": True,
        "assumptions": ["spike times restricted to the dyadic lattice; shifts and power-of-two "
                        "scale factors are exactly representable so that ties are preserved: the "
                        "time axis must be reproduced bit for bit and values within 1e-12; factor "
                        "3 and the reflection are compared with tolerance 1e-10",
                        "pyx configuration = rendered .pyx sources"],
        "explanation": "metamorphic relations from the statement, no reference model: transformed "
                       "time axis, equal values/multiplicities/scalars; reflection reverses arrays, "
                       "exchanges left and right limits and negates the order profile/value",
    }


TIGHT = 1e-12


def _cmp(a, b, exact, values=False):
    """exact: the time axis must be reproduced bit for bit; values of an exactly
    representable transformation must agree to 1e-12 (an implementation is free
    to round differently, e.g. by summing absolute times, without violating the
    statement; genuine edge-rule defects are >= 1e-3)"""
    a = np.asarray(a, float)
    b = np.asarray(b, float)
    if a.shape != b.shape:
        return False
    if exact and not values:
        return bool(np.array_equal(a, b))
    return bool(np.all(np.abs(a - b) <= (TIGHT if exact else TOL)))


def evaluate(r, trains, edges, name, kw, transforms, be, rank=()):
    import pyspike as spk
    ts, te = edges
    sts = [spk.SpikeTrain(t, edges) for t in trains]
    case = {"trains": trains, "edges": edges, "measure": name, "kwargs": kw}
    cls = "N%d/%s" % (len(trains), pairs.classes(trains, ts, te) if len(trains) == 2 else "")
    try:
        o = observe(name, sts, kw)
    except Exception as e:
        r.violation(ID, "exception", be, "exception/%s/%s/%s" % (name, be, cls), case, "results",
                    "%s: %s" % (type(e).__name__, e), "measure raised on valid input", rank)
        return
    arrs = [k for k in ("y", "y1", "y2", "mp") if k in o]
    # averaging sub-intervals whose ends sit on lattice points (hence possibly on spikes)
    T = te - ts
    nU = int(round(T / U)) if T / U > 0.99 else 0
    ivs = []
    if name != "order" and nU >= 2:
        ivs.append([ts, ts + (nU // 2) * U])
        if nU >= 3:
            ivs.append([ts + U, te - U])
    dist = {"isi": spk.isi_distance, "spike": spk.spike_distance, "sync": spk.spike_sync}.get(name)
    args0 = sts if len(sts) == 2 else [sts]
    try:
        base_iv = [float(dist(*args0, interval=iv, **kw)) for iv in ivs]
    except Exception as e:
        r.violation(ID, "exception", be, "exception.interval/%s/%s/%s" % (name, be, cls), case,
                    "results", "%s: %s" % (type(e).__name__, e),
                    "measure with interval raised on valid input", rank)
        return
    for kind, par, exact in transforms:
        r.evaluations += 1
        exact = exact and not isinstance(kw.get("MRTS"), str)
        if kind == "shift":
            f = lambda t: t + par
            kw2 = kw
            if any((t + par) - par != t for tr in trains for t in tr) or (ts + par) - par != ts \
                    or (te + par) - par != te:
                continue            # this shift is not exactly representable for this input
        elif kind == "scale":
            f = lambda t: t * par
            kw2 = scale_kw(kw, par)
        else:
            f = lambda t: ts + te - t
            kw2 = kw
        if kind == "reflect":
            tr2 = [sorted(f(t) for t in tr) for tr in trains]
            ed2 = [ts, te]
        else:
            tr2 = [[f(t) for t in tr] for tr in trains]
            ed2 = [f(ts), f(te)]
        c2 = dict(case, transform=[kind, par])
        try:
            t = observe(name, [spk.SpikeTrain(x, ed2) for x in tr2], kw2)
        except Exception as e:
            r.violation(ID, "exception", be, "exception/%s/%s/%s/%s" % (kind, name, be, cls), c2,
                        "results", "%s: %s" % (type(e).__name__, e),
                        "measure raised on the transformed input", rank)
            return
        if kind != "reflect":
            exp = {"x": [f(v) for v in o["x"]], "v": o["v"]}
            exp.update({k: o[k] for k in arrs})
            ok = _cmp(t["x"], exp["x"], True if kind == "shift" or exact else False)
            ok = ok and all(_cmp(t[k], o[k], exact, values=True) for k in arrs)
            ok = ok and abs(t["v"] - o["v"]) <= (TIGHT if exact else TOL)
        else:
            exp = {"x": [f(v) for v in o["x"]][::-1]}
            if name == "isi":
                exp["y"] = o["y"][::-1]
            elif name == "spike":
                exp["y1"] = o["y2"][::-1]
                exp["y2"] = o["y1"][::-1]
            elif name == "sync":
                exp["y"] = o["y"][::-1]
                exp["mp"] = o["mp"][::-1]
            else:
                exp["y"] = -o["y"][::-1] + 0.0
                exp["mp"] = o["mp"][::-1]
            exp["v"] = -o["v"] if name == "order" else o["v"]
            if name == "order" and not np.any(o["mp"][1:-1]):
                exp["v"] = o["v"]        # no spikes at all: value is a convention
            ok = _cmp(t["x"], exp["x"], False)
            if name in ("sync", "order"):
                # edge entries are copies of the first/last event and "never count"
                ok = ok and all(_cmp(t[k][1:-1], exp[k][1:-1], False) for k in arrs)
            else:
                ok = ok and all(_cmp(t[k], exp[k], False) for k in arrs)
            ok = ok and abs(t["v"] - exp["v"]) <= TOL
        if ok and ivs:
            sts2 = [spk.SpikeTrain(x, ed2) for x in tr2]
            args2 = sts2 if len(sts2) == 2 else [sts2]
            for iv, v0 in zip(ivs, base_iv):
                iv2 = sorted([f(iv[0]), f(iv[1])])
                try:
                    v2 = float(dist(*args2, interval=iv2, **kw2))
                except Exception as e:
                    v2 = float("nan")
                if not abs(v2 - v0) <= TOL:
                    ok = False
                    exp = {"interval": iv, "value": v0}
                    t = dict(t, x=np.asarray(iv2), v=v2)
                    arrs_show = []
                    break
        if not ok:
            r.violation(ID, kind, be, "%s/%s/%s/%s" % (kind, name, be, cls), c2,
                        {k: exp[k] for k in exp}, {k: t[k] for k in ["x"] + arrs + ["v"]},
                        "result of the transformed input is not the transformed result", rank)
            return
    r.outcomes.add((name, round(o["v"], 9)))


def check_state(r, k, masks, task):
    trains, edges = pairs.trains_edges(k, masks)
    ns = pairs.nspikes(masks)
    for ci, (name, kw) in enumerate(task["conf"]):
        evaluate(r, trains, edges, name, kw, [tuple(t) for t in task.get("tf", TRANSFORMS)],
                 task["backend"], (k, ns, ci))
    if r.states % 997 == 1:
        r.sample({"trains": trains, "edges": edges})


def run_task(task):
    return pairs.run_states(task, check_state, ID)


def replay(rec):
    r = Result()
    c = rec["case"]
    tf = TRANSFORMS
    if "transform" in c:
        tf = [t for t in TRANSFORMS if t[0] == c["transform"][0] and t[1] == c["transform"][1]]
    evaluate(r, c["trains"], c["edges"], c["measure"], c["kwargs"], tf, rec["backend"],
             tuple(rec.get("rank", ())))
    return r
