"""C13 - inputs are normalised before use and never modified."""
from itertools import product

import numpy as np

from mc.common import TOL, U, T0
from mc.measures import entry_points, accepts, obs_close
from mc.runner import Result

ID = "C13"
LEVEL = "model_checking"
EPS = 1e-6
IN_SLACK = 0.75e-6         # inside the documented 1e-6 tolerance
OUT_SLACK = 1.25e-6        # outside it

KW_MENU_Q = [{}, {"MRTS": 2 * U}, {"MRTS": "auto"}, {"max_tau": U, "MRTS": 6 * U}, {"RI": True}]
KW_MENU_T = KW_MENU_Q + [{"MRTS": 40 * U}, {"max_tau": 0.5 * U}, {"MRTS": "auto", "RI": True},
                         {"max_tau": 2 * U, "MRTS": "auto"}]


def seqs(alphabet, maxlen):
    """all sequences (order and repetition matter) up to maxlen"""
    out = []
    for n in range(maxlen + 1):
        out.extend(list(p) for p in product(alphabet, repeat=n))
    return out


def plan(tier):
    q = tier == "quick"
    tasks = []
    # (a) reconcile semantics: raw sequences x partner trains with other edges
    nsh = 8
    for s in range(nsh):
        tasks.append({"backend": "py", "mode": "reconcile", "k": 3, "maxlen": 3 if q else 4,
                      "shard": s, "nshards": nsh})
    # (b,c) measures on disordered input / inputs unchanged
    specs = [(2, 2, 3), (2, 3, 2 if q else 3), (3, 2, 2)]
    for N, k, maxlen in specs:
        for be in ("py", "pyx"):
            nsh = 16
            for s in range(nsh):
                tasks.append({"backend": be, "mode": "measures", "N": N, "k": k, "maxlen": maxlen,
                              "kw": KW_MENU_Q if q else KW_MENU_T, "shard": s, "nshards": nsh})
    # mixed-rate triples made messy: the only regime in which MRTS='auto' (resolved from the
    # reconciled trains) changes coincidences, see DESIGN 2.1
    for be in ("py", "pyx"):
        for s in range(32):
            tasks.append({"backend": be, "mode": "mixed", "ks": [8], "shard": s, "nshards": 32})
    return {
        "tasks": tasks,
        "bounds": {
            "mixed_rate_messy": {"states": 3 * 46 * 46, "clock": 8, "raw_form": "every train reversed "
                                 "with its first and last spike repeated", "keyword": "MRTS='auto'",
                                 "entry_points": "the 16 list-form entry points"},
            "reconcile": {"alphabet": "lattice points 0..3 plus 6 tolerance probes (global edge "
                                      "-/+ 0.75e-6 inside the 1e-6 slack, -/+ 1.25e-6 outside it, "
                                      "-/+ 1); near the origin and at 2^20",
                          "sequence_length": 3 if q else 4,
                          "partners": "4 partner trains with equal / wider / shifted edges"},
            "measures": [{"N": N, "clock": k, "sequence_length": m,
                          "edge_menus": 2 if N == 2 else 1} for N, k, m in specs],
            "entry_points": len(ENTRY_NAMES), "keyword_menu": KW_MENU_Q if q else KW_MENU_T,
            "backends": ["py", "pyx-model"]},
        "rule": "raw trains = all sequences (order and repetition matter) over the stated "
                "alphabets up to the stated length; reconcile is applied once and twice; every "
                "public measure entry point is run on the raw list, on the sorted duplicate-free "
                "list and (when that list is valid) with Reconcile=False; byte snapshots of every "
                "input's spikes/t_start/t_end around every call; non-trivial = raw list that is "
                "not already sorted and duplicate-free",
        "exhaustive": True,
        "assumptions": ["spike times on the lattice plus the tolerance probes",
                        "pyx configuration = rendered .pyx sources"],
        "explanation": "set semantics of reconcile (global edges, strictly increasing, every "
                       "distinct in-range time exactly once, nothing else, idempotent); "
                       "f(raw) == f(sorted-unique raw); f(valid) == f(valid, Reconcile=False); "
                       "inputs byte-identical after every call",
    }


ENTRY_NAMES = ["isi_profile(a,b)", "isi_profile(list)", "isi_profile_multi", "isi_distance(a,b)",
               "isi_distance(list)", "isi_distance_multi", "isi_distance_matrix",
               "spike_profile(a,b)", "spike_profile(list)", "spike_profile_multi",
               "spike_distance(a,b)", "spike_distance(list)", "spike_distance_multi",
               "spike_distance_matrix", "spike_sync_profile(a,b)", "spike_sync_profile(list)",
               "spike_sync_profile_multi", "spike_sync(a,b)", "spike_sync(list)",
               "spike_sync_multi", "spike_sync_matrix", "filter_by_spike_sync",
               "spike_train_order_profile(a,b)", "spike_train_order_profile(list)",
               "spike_train_order_profile_bi", "spike_train_order_profile_multi",
               "spike_train_order(a,b)", "spike_train_order(list)", "spike_train_order_bi",
               "spike_train_order_multi", "spike_directionality",
               "spike_directionality_values(a,b)", "spike_directionality_values(list)",
               "spike_directionality_matrix"]


def snap(sts):
    return [(type(st.spikes).__name__, np.asarray(st.spikes).tobytes(),
             str(np.asarray(st.spikes).dtype), st.t_start, st.t_end) for st in sts]


# ------------------------------------------------------------------ reconcile
def model_reconcile(raws, edges):
    ts = min(e[0] for e in edges)
    te = max(e[1] for e in edges)
    out = []
    for raw in raws:
        out.append(sorted(set(t for t in raw if ts - EPS < t < te + EPS)))
    return out, [ts, te]


def eval_reconcile(r, raws, edges, be="py", rank=()):
    import pyspike as spk
    from pyspike.spikes import reconcile_spike_trains
    sts = [spk.SpikeTrain(raw, e, is_sorted=True) for raw, e in zip(raws, edges)]
    case = {"mode": "reconcile", "raw": raws, "edges": edges}
    before = snap(sts)
    r.evaluations += 1
    r.traces += 1
    try:
        out = reconcile_spike_trains(sts)
        out2 = reconcile_spike_trains(out)
    except Exception as e:
        r.violation(ID, "reconcile.exception", be, "reconcile.exception", case, "trains",
                    "%s: %s" % (type(e).__name__, e), "reconcile_spike_trains raised", rank)
        return
    exp, ed = model_reconcile(raws, edges)
    got = [[np.asarray(o.spikes, float).tolist(), [o.t_start, o.t_end]] for o in out]
    got2 = [[np.asarray(o.spikes, float).tolist(), [o.t_start, o.t_end]] for o in out2]
    want = [[e, ed] for e in exp]
    if got != want:
        r.violation(ID, "reconcile.semantics", be, "reconcile.semantics", case, want, got,
                    "reconciled trains are not: common interval [min start, max end], strictly "
                    "increasing, every distinct in-range input time exactly once, nothing else",
                    rank)
        return
    if got2 != got:
        r.violation(ID, "reconcile.idempotent", be, "reconcile.idempotent", case, got, got2,
                    "reconciling twice changes the result", rank)
        return
    if snap(sts) != before or any(o is s for o in out for s in sts):
        r.violation(ID, "reconcile.modifies", be, "reconcile.modifies", case, "inputs unchanged, "
                    "new objects returned", "changed/aliased", "reconcile modified or returned "
                    "its input objects", rank)
        return
    # results do not share memory with the inputs
    for o, s in zip(out, sts):
        if isinstance(o.spikes, np.ndarray) and np.shares_memory(o.spikes, s.spikes):
            r.violation(ID, "reconcile.aliases", be, "reconcile.aliases", case, "fresh arrays",
                        "shared memory", "reconciled train shares memory with its input", rank)
            return
    r.outcomes.add(str(got))


def run_reconcile(task):
    r = Result()
    k = task["k"]
    idx = 0
    # the lattice near the origin and the same lattice at 2^20 (the tolerance is absolute)
    for base in (T0, 2.0 ** 20 + T0):
      lat = [base + i * U for i in range(k + 1)]
      partners = [([base + U], [base, base + k * U]),                  # same edges
                  ([], [base - U, base + k * U]),                      # earlier start
                  ([base + (k + 1) * U], [base, base + (k + 1) * U]),  # later end, spike on it
                  ([base - 2 * U, base + U], [base - 2 * U, base + (k + 2) * U])]
      if base != T0:
          partners = partners[:2]
      for pi, (pspk, pedges) in enumerate(partners):
        own = [base, base + k * U]
        gts = min(own[0], pedges[0])
        gte = max(own[1], pedges[1])
        probes = [gts - IN_SLACK, gts - OUT_SLACK, gts - 1.0, gte + IN_SLACK, gte + OUT_SLACK,
                  gte + 1.0]
        for raw in seqs(lat + probes, task["maxlen"]):
            idx += 1
            if idx % task["nshards"] != task["shard"]:
                continue
            r.states += 1
            r.transitions += 1
            if raw != sorted(set(raw)):
                r.sigs.add(hash((pi, tuple(raw))) & 0xffffffffffff)
            for order in ((0, 1), (1, 0)):
                raws = [raw, pspk] if order == (0, 1) else [pspk, raw]
                eds = [own, pedges] if order == (0, 1) else [pedges, own]
                eval_reconcile(r, raws, eds, "py", (len(raw), pi))
            if r.states % 499 == 1:
                r.sample({"mode": "reconcile", "raw": raw, "edges": own, "partner": pspk,
                          "partner_edges": pedges})
    return r


# ------------------------------------------------------------------- measures
def eval_measures(r, raws, edges, kws, be, rank=(), only=None):
    import pyspike as spk
    n = len(raws)
    canon = [sorted(set(raw)) for raw in raws]
    valid = all(e == edges[0] for e in edges) and \
        all(edges[0][0] <= t <= edges[0][1] for c in canon for t in c)
    messy = any(raw != c for raw, c in zip(raws, canon))
    for name, _, fn in ENTRIES:
        if only and name != only:
            continue
        if "(a,b)" in name or name.endswith("_bi") or name == "spike_directionality":
            if n != 2 and not ("(a,b)" in name or name.endswith("_bi") or
                               name == "spike_directionality"):
                continue
        for kw in kws:
            if not accepts(name, kw):
                continue
            case = {"mode": "measures", "raw": raws, "edges": edges, "entry": name, "kwargs": kw}
            sts = [spk.SpikeTrain(raw, e, is_sorted=True) for raw, e in zip(raws, edges)]
            before = snap(sts)
            r.evaluations += 1
            try:
                a = fn(sts, **kw)
            except Exception as e:
                r.violation(ID, "exception", be, "exception/%s/%s" % (name, be), case, "a result",
                            "%s: %s" % (type(e).__name__, e),
                            "measure raised on a list that reconciliation makes valid", rank)
                continue
            if snap(sts) != before:
                r.violation(ID, "modifies", be, "modifies/%s/%s" % (name, be), case,
                            "inputs unchanged",
                            [[type(s.spikes).__name__, np.asarray(s.spikes).tolist(), s.t_start,
                              s.t_end] for s in sts],
                            "the call changed the spike times or edges of a train passed to it",
                            rank)
                continue
            if messy:
                cs = [spk.SpikeTrain(c, e, is_sorted=True) for c, e in zip(canon, edges)]
                try:
                    b = fn(cs, **kw)
                except Exception as e:
                    b = "%s: %s" % (type(e).__name__, e)
                if not obs_close(a, b, TOL):
                    r.violation(ID, "order_or_duplicates", be,
                                "order_or_duplicates/%s/%s" % (name, be), case, b, a,
                                "result depends on the order of the spike times within a train or "
                                "on repeated spike times", rank)
                    continue
            if valid and not messy:
                vs = [spk.SpikeTrain(c, e, is_sorted=True) for c, e in zip(canon, edges)]
                vbefore = snap(vs)
                try:
                    c_ = fn(vs, Reconcile=False, **kw)
                except Exception as e:
                    c_ = "%s: %s" % (type(e).__name__, e)
                if snap(vs) != vbefore:
                    r.violation(ID, "modifies", be, "modifies.reconcile_off/%s/%s" % (name, be),
                                dict(case, Reconcile=False), "inputs unchanged",
                                [[type(s_.spikes).__name__, np.asarray(s_.spikes).tolist(),
                                  s_.t_start, s_.t_end] for s_ in vs],
                                "the call (with reconciliation switched off) changed the spike "
                                "times or edges of a train passed to it", rank)
                    continue
                if not obs_close(a, c_, TOL):
                    r.violation(ID, "reconcile_off", be, "reconcile_off/%s/%s" % (name, be), case,
                                a, c_, "result on already valid input changes when reconciliation "
                                "is switched off", rank)


ENTRIES = []


def _entries():
    global ENTRIES
    if not ENTRIES:
        ENTRIES = entry_points()
        assert [e[0] for e in ENTRIES] == ENTRY_NAMES, [e[0] for e in ENTRIES]
    return ENTRIES


def run_measures(task):
    r = Result()
    _entries()
    N, k = task["N"], task["k"]
    lat = [T0 + i * U for i in range(k + 1)]
    base = [T0, T0 + k * U]
    S = seqs(lat, task["maxlen"])
    edge_menus = [[base] * N]
    if N == 2:
        edge_menus.append([base, [T0 - U, T0 + (k + 1) * U]])
    idx = 0
    for em, eds in enumerate(edge_menus):
        for combo in product(S, repeat=N):
            idx += 1
            if idx % task["nshards"] != task["shard"]:
                continue
            r.states += 1
            r.transitions += 1
            raws = [list(c) for c in combo]
            if any(raw != sorted(set(raw)) for raw in raws):
                r.sigs.add(hash((em, tuple(map(tuple, combo)))) & 0xffffffffffff)
            eval_measures(r, raws, [list(e) for e in eds], task["kw"], task["backend"],
                          (sum(len(x) for x in raws), em))
            if r.states % 499 == 1:
                r.sample({"mode": "measures", "raw": raws, "edges": eds})
    return r


MIXED_ENTRIES = ["isi_distance(list)", "spike_distance(list)", "isi_profile(list)",
                 "spike_sync_profile(list)", "spike_sync(list)", "spike_sync_multi",
                 "spike_sync_matrix", "filter_by_spike_sync", "spike_train_order_profile(list)",
                 "spike_train_order(list)", "spike_train_order_multi", "spike_train_order(a,b)",
                 "spike_directionality", "spike_directionality_values(list)",
                 "spike_directionality_matrix", "isi_distance_matrix"]


def run_mixed(task):
    from mc import pairs, lattice
    r = Result()
    _entries()
    for k, masks in pairs.mixed_rate_triples(tuple(task["ks"]), 2, task["shard"], task["nshards"]):
        r.states += 1
        r.transitions += 1
        trains, edges = pairs.trains_edges(k, masks)
        raws = []
        for t in trains:
            raw = list(reversed(t))
            if raw:
                raw = [raw[-1]] + raw + [raw[0]]      # repeat the first and the last spike
            raws.append(raw)
        r.sigs.add(hash((k, masks)))
        for name in MIXED_ENTRIES:
            eval_measures(r, raws, [list(edges)] * 3, [{"MRTS": "auto"}], task["backend"],
                          (k, sum(len(x) for x in raws)), only=name)
        if r.states % 199 == 1:
            r.sample({"mode": "mixed", "raw": raws, "edges": edges})
    return r


def run_task(task):
    if task["mode"] == "reconcile":
        return run_reconcile(task)
    if task["mode"] == "mixed":
        return run_mixed(task)
    return run_measures(task)


def replay(rec):
    r = Result()
    c = rec["case"]
    rank = tuple(rec.get("rank", ()))
    if c["mode"] == "reconcile":
        eval_reconcile(r, c["raw"], c["edges"], rec["backend"], rank)
    else:
        _entries()
        eval_measures(r, c["raw"], c["edges"], [c["kwargs"]], rec["backend"], rank,
                      only=c["entry"])
    return r
