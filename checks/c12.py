"""C12 - compiled backend (rendered .pyx sources) and pure-Python fallback agree."""
import numpy as np

from mc import lattice, pairs, backend
from mc import history as H
from mc.measures import observe
from mc.pyxmodel import ModelUB
from mc.common import U, T0
from mc.runner import Result

ID = "C12"
LEVEL = "model_checking"
TOL12 = 1e-12

# (MRTS, RI, max_tau)
MENU_Q = [(0.0, False, 0.0), (2 * U, True, U), (6 * U, False, 0.0), (1.5 * U, False, 0.5 * U)]
MENU_T = [(m, ri, mt) for m in (0.0, 0.5 * U, U, 2 * U, 3 * U, 6 * U, 8 * U, 12 * U, 40 * U)
          for ri in (False, True) for mt in (0.0, 0.5 * U, U, 2 * U)]

PUBLIC_Q = [("isi", {}), ("isi", {"MRTS": 2 * U}), ("spike", {}), ("spike", {"MRTS": 1.5 * U, "RI": True}),
            ("sync", {}), ("sync", {"max_tau": U, "MRTS": 6 * U}), ("order", {}),
            ("order", {"max_tau": U, "MRTS": 6 * U})]


def plan(tier):
    if tier == "quick":
        specs = [("kernels", 2, [("dense", 1, 5), ("bounded", 3, 6, 7), ("near", 2, 3)], MENU_Q),
                 ("public", 2, [("dense", 1, 4)], PUBLIC_Q), ("public", 3, [("dense", 1, 2)], PUBLIC_Q)]
        addL = 4
    else:
        specs = [("kernels", 2, [("dense", 1, 6)], MENU_T[::3]),
                 ("kernels", 2, [("dense", 7, 7), ("bounded", 3, 8, 9), ("near", 2, 4)], MENU_Q),
                 ("public", 2, [("dense", 1, 6)], PUBLIC_Q), ("public", 3, [("dense", 1, 4)], PUBLIC_Q)]
        addL = 5
    tasks, descs = [], []
    for mode, N, regimes, menu in specs:
        tasks += pairs.regime_tasks(N, regimes, ["both"], extra={"mode": mode, "menu": menu})
        d, _ = pairs.describe_regimes(regimes, N)
        for x in d:
            x["mode"] = mode
            x["menu"] = menu
        descs += d
    for kind in ("pwc", "pwl", "disc"):
        for L in range(1, addL + 1):
            tasks.append({"backend": "both", "mode": "add", "kind": kind, "L": L})
        descs.append({"mode": "add routines", "class": kind, "support_cells": "1..%d" % addL,
                      "operands": "all ordered pairs of the operand menu"})
    return {
        "tasks": tasks,
        "bounds": {"explorations": descs, "lattice": {"t0": T0, "u": U}},
        "rule": "kernels mode: for every ordered pair of lattice spike trains and every (MRTS, RI, "
                "max_tau) of the menu, each rendered .pyx routine is called with exactly the "
                "arguments the public layer would pass and compared with its *_python counterpart "
                "(single-pass distance routines: with the average / integral of the fallback's "
                "profile); add mode: the three add routines on all ordered pairs of the operand "
                "menus; public mode: every public profile and scalar function run in both backend "
                "configurations on the same input; non-trivial = both trains carry spikes",
        "exhaustive": True,
        "assumptions": [
            "the compiled side is the .pyx source rendered under stated C semantics (C double = "
            "IEEE binary64, int = unbounded, strict memoryview dtype/bounds discipline, C99 "
            "fmin/fmax, NaN-filled np.empty); C int overflow, compiler and ABI issues are outside",
            "routines are looked up by their current names; a missing routine is reported as "
            "skipped, not as a violation"],
        "explanation": "the model is re-derived from the working tree on every run, so model and "
                       "code cannot drift apart; traces_validated_against_impl counts routine "
                       "comparisons",
    }


def _arr(v):
    return np.asarray(v, float)


def _same(a, b, exact=False):
    a, b = _arr(a), _arr(b)
    if a.shape != b.shape:
        return False
    if np.any(np.isnan(a) != np.isnan(b)):
        return False
    m = ~np.isnan(a)
    if exact:
        return bool(np.array_equal(a[m], b[m]))
    return bool(np.all(np.abs(a[m] - b[m]) <= TOL12))


def _call(fn, *args):
    try:
        return ("ok", fn(*args))
    except ModelUB as e:
        return ("UB", "undefined behaviour in compiled code: %s" % e)
    except Exception as e:
        return ("exc", "%s: %s" % (type(e).__name__, e))


def _get(mod, name):
    return getattr(mod, name, None)


def eval_kernels(r, trains, edges, mrts, ri, mt, rank=()):
    import pyspike.cython.python_backend as pb
    import pyspike.cython.directionality_python_backend as db
    K = backend.kernels()
    ts, te = edges
    T = te - ts
    raw = [np.array(t, dtype=float) for t in trains]
    ne = [a if len(a) else np.array([ts, te]) for a in raw]
    cls = pairs.classes(trains, ts, te)
    case = {"trains": trains, "edges": edges, "MRTS": mrts, "RI": ri, "max_tau": mt}

    def viol(sub, exp, obs, msg):
        r.violation(ID, sub, "both", "%s/%s" % (sub, cls), dict(case, routine=sub), exp, obs,
                    msg, rank)

    def pair(sub, cy, py, conv=None, exact_first=True):
        """compare cy() with py(); both return tuples of arrays / scalars"""
        r.evaluations += 1
        r.traces += 1
        a = _call(*cy)
        b = _call(*py)
        if a[0] != "ok" or b[0] != "ok":
            if a[0] == "exc" and b[0] == "exc":
                return None
            viol(sub, b[1] if b[0] != "ok" else "same as fallback", a[1] if a[0] != "ok" else
                 "fallback raised, compiled did not", "only one of the two versions fails")
            return None
        av = a[1] if isinstance(a[1], tuple) else (a[1],)
        bv = b[1] if isinstance(b[1], tuple) else (b[1],)
        if conv:
            bv = conv(bv)
        ok = len(av) == len(bv) and all(_same(x, y, exact_first and i == 0 and len(av) > 1)
                                        for i, (x, y) in enumerate(zip(av, bv)))
        if not ok:
            viol(sub, [_arr(x) for x in bv], [_arr(x) for x in av],
                 "compiled source and fallback return different results")
        return av

    def have(mod, *names):
        fs = [_get(mod, n) for n in names]
        if any(f is None for f in fs):
            r.count("skipped_missing_routine:" + "/".join(names))
            return None
        return fs

    prof, dist, dire = K["cython_profiles"], K["cython_distances"], K["cython_directionality"]
    f = have(prof, "isi_profile_cython")
    g = have(pb, "isi_distance_python")
    if f and g:
        pair("isi_profile", (f[0], ne[0], ne[1], ts, te, mrts), (g[0], ne[0], ne[1], ts, te, mrts))
        h = have(dist, "isi_distance_cython")
        if h:
            pair("isi_distance", (h[0], ne[0], ne[1], ts, te, mrts),
                 (g[0], ne[0], ne[1], ts, te, mrts),
                 conv=lambda v: (np.sum(np.diff(_arr(v[0])) * _arr(v[1])) / T,), exact_first=False)
    f = have(prof, "spike_profile_cython")
    g = have(pb, "spike_distance_python")
    if f and g:
        pair("spike_profile", (f[0], ne[0], ne[1], ts, te, mrts, ri),
             (g[0], ne[0], ne[1], ts, te, mrts, ri))
        h = have(dist, "spike_distance_cython")
        if h:
            pair("spike_distance", (h[0], ne[0], ne[1], ts, te, mrts, ri),
                 (g[0], ne[0], ne[1], ts, te, mrts, ri),
                 conv=lambda v: (np.sum(np.diff(_arr(v[0])) * 0.5 * (_arr(v[1]) + _arr(v[2]))) / T,),
                 exact_first=False)
    f = have(prof, "coincidence_profile_cython")
    g = have(pb, "coincidence_python")
    if f and g:
        pair("coincidence_profile", (f[0], raw[0], raw[1], ts, te, mt, mrts),
             (g[0], raw[0], raw[1], ts, te, mt, mrts))
        h = have(dist, "coincidence_value_cython")
        if h:
            pair("coincidence_value", (h[0], raw[0], raw[1], ts, te, mt, mrts),
                 (g[0], raw[0], raw[1], ts, te, mt, mrts),
                 conv=lambda v: (np.sum(_arr(v[1])[1:-1]), np.sum(_arr(v[2])[1:-1])),
                 exact_first=False)
    f = have(prof, "coincidence_single_profile_cython")
    g = have(pb, "coincidence_single_python")
    if f and g:
        for a, b in ((0, 1), (1, 0)):
            pair("coincidence_single", (f[0], raw[a], raw[b], ts, te, mt, mrts),
                 (g[0], raw[a], raw[b], ts, te, mt, mrts), exact_first=False)
    f = have(dire, "spike_train_order_profile_cython")
    g = have(db, "spike_train_order_profile_python")
    if f and g:
        pair("order_profile", (f[0], raw[0], raw[1], ts, te, mt, mrts),
             (g[0], raw[0], raw[1], ts, te, mt, mrts))
        h = have(dire, "spike_train_order_cython")
        if h:
            pair("order_value", (h[0], raw[0], raw[1], ts, te, mt, mrts),
                 (g[0], raw[0], raw[1], ts, te, mt, mrts),
                 conv=lambda v: (np.sum(_arr(v[1])[1:-1]), np.sum(_arr(v[2])[1:-1])),
                 exact_first=False)
    f = have(dire, "spike_directionality_profiles_cython")
    g = have(db, "spike_directionality_profile_python")
    if f and g:
        pair("directionality_profiles", (f[0], raw[0], raw[1], ts, te, mt, mrts),
             (g[0], raw[0], raw[1], ts, te, mt, mrts), exact_first=False)
        h = have(dire, "spike_directionality_cython")
        if h:
            pair("directionality_value", (h[0], raw[0], raw[1], ts, te, mt, mrts),
                 (g[0], raw[0], raw[1], ts, te, mt, mrts),
                 conv=lambda v: (np.sum(_arr(v[0])),), exact_first=False)
    # coincidence window for every index pair the scans can form
    f = have(K["cython_get_tau"], "get_tau")
    g = have(pb, "get_tau")
    if f and g:
        true_max = T if not mt > 0 else min(T, 2 * mt)
        for i in range(-1, len(raw[0])):
            for j in range(-1, len(raw[1])):
                if i < 0 and j < 0:
                    continue
                pair("get_tau", (f[0], raw[0], raw[1], i, j, true_max, mrts),
                     (g[0], raw[0], raw[1], i, j, true_max, mrts), exact_first=False)


def eval_public(r, trains, edges, name, kw, rank=()):
    import pyspike as spk
    sts = [spk.SpikeTrain(t, edges) for t in trains]
    case = {"trains": trains, "edges": edges, "measure": name, "kwargs": kw}
    res = {}
    r.evaluations += 1
    r.traces += 1
    for be in ("py", "pyx"):
        backend.use(be)
        try:
            o = observe(name, sts, kw)
            o.pop("profile")
            res[be] = ("ok", o)
        except ModelUB as e:
            res[be] = ("UB", str(e))
        except Exception as e:
            res[be] = ("exc", "%s: %s" % (type(e).__name__, e))
    backend.use("py")
    a, b = res["py"], res["pyx"]
    sig = "public.%s/N%d" % (name, len(trains))
    if a[0] != "ok" or b[0] != "ok":
        if a[0] == "exc" and b[0] == "exc":
            return
        r.violation(ID, "public." + name, "both", sig, case, a[1], b[1],
                    "only one backend configuration fails", rank)
        return
    ok = set(a[1]) == set(b[1]) and all(
        _same(a[1][k], b[1][k], k == "x") if k != "v" else
        (abs(a[1]["v"] - b[1]["v"]) <= TOL12 or (a[1]["v"] != a[1]["v"] and b[1]["v"] != b[1]["v"]))
        for k in a[1])
    if not ok:
        r.violation(ID, "public." + name, "both", sig, case, a[1], b[1],
                    "public result differs between the fallback and the compiled-kernel "
                    "configuration", rank)


def eval_add(r, kind, L):
    import pyspike.cython.python_backend as pb
    K = backend.kernels()["cython_add"]
    names = {"pwc": ("add_piece_wise_const_cython", "add_piece_wise_const_python"),
             "pwl": ("add_piece_wise_lin_cython", "add_piece_wise_lin_python"),
             "disc": ("add_discrete_function_cython", "add_discrete_function_python")}[kind]
    cy, py = _get(K, names[0]), _get(pb, names[1])
    if cy is None or py is None:
        r.count("skipped_missing_routine:" + names[0])
        return
    menu = {"pwc": lambda: H.pwc_menu(L, ["pos", "neg", "alt"]), "pwl": lambda: H.pwl_menu(L),
            "disc": lambda: H.disc_menu(L)}[kind]()
    for n1, a1, m1 in menu:
        for n2, a2, m2 in menu:
            r.states += 1
            r.transitions += 1
            r.evaluations += 1
            r.traces += 1
            args = [np.array(v, dtype=float) for v in a1] + [np.array(v, dtype=float) for v in a2]
            snap = [v.tobytes() for v in args]
            a = _call(cy, *[v.copy() for v in args])
            b = _call(py, *args)
            case = {"kind": kind, "L": L, "f": n1, "g": n2}
            if a[0] != "ok" or b[0] != "ok":
                if not (a[0] == "exc" and b[0] == "exc"):
                    r.violation(ID, "add." + kind, "both", "add.%s" % kind, case, b[1], a[1],
                                "only one of the two add routines fails", (L, len(n1) + len(n2)))
                continue
            ok = all(_same(x, y, i == 0) for i, (x, y) in enumerate(zip(a[1], b[1])))
            if kind == "disc":
                # edge entries never count
                ok = _same(a[1][0], b[1][0], True) and all(
                    _same(_arr(x)[1:-1], _arr(y)[1:-1]) for x, y in zip(a[1][1:], b[1][1:]))
            if not ok or len(a[1]) != len(b[1]):
                r.violation(ID, "add." + kind, "both", "add.%s" % kind, case,
                            [_arr(v) for v in b[1]], [_arr(v) for v in a[1]],
                            "compiled add routine and fallback differ", (L, len(n1) + len(n2)))
            if [v.tobytes() for v in args] != snap:
                r.violation(ID, "add.modifies." + kind, "both", "add.modifies.%s" % kind, case,
                            "arguments unchanged", "changed", "add routine modified its arguments",
                            (L,))
    r.sample({"mode": "add", "kind": kind, "L": L, "operands": len(menu)})


def check_state(r, k, masks, task):
    trains, edges = pairs.trains_edges(k, masks)
    ns = pairs.nspikes(masks)
    if task["mode"] == "kernels":
        for mi, (m, ri, mt) in enumerate(task["menu"]):
            eval_kernels(r, trains, edges, m, ri, mt, (k, ns, mi))
    else:
        for mi, (name, kw) in enumerate(task["menu"]):
            eval_public(r, trains, edges, name, kw, (k, ns, mi))
    if r.states % 997 == 1:
        r.sample({"mode": task["mode"], "trains": trains, "edges": edges})


def run_task(task):
    if not backend.render_pyx():
        r = Result()
        r.skipped = "pyx-model unavailable: %s" % backend.pyx_error()
        return r
    if task["mode"] == "add":
        r = Result()
        eval_add(r, task["kind"], task["L"])
        return r
    return pairs.run_states(task, check_state, ID)


def replay(rec):
    r = Result()
    if not backend.render_pyx():
        r.skipped = "pyx-model unavailable"
        return r
    c = rec["case"]
    rank = tuple(rec.get("rank", ()))
    if "routine" in c:
        eval_kernels(r, c["trains"], c["edges"], c["MRTS"], c["RI"], c["max_tau"], rank)
    elif "measure" in c:
        eval_public(r, c["trains"], c["edges"], c["measure"], c["kwargs"], rank)
    else:
        rr = Result()
        eval_add(rr, c["kind"], c["L"])
        for sig, lst in rr.viol.items():
            for v in lst:
                if v["case"].get("f") == c["f"] and v["case"].get("g") == c["g"]:
                    r.viol.setdefault(sig, []).append(v)
        if not r.viol and rr.viol:
            # capped record list: fall back to everything of that signature
            r.viol = {s: l for s, l in rr.viol.items() if s == rec["signature"]}
    return r
