"""C16 - max_tau is an upper bound on the coincidence window."""
import numpy as np

from mc import lattice, pairs
from mc.common import U
from mc.runner import Result

ID = "C16"
LEVEL = "model_checking"

TAUS_Q = [0.5 * U, U, 2 * U, 3 * U]
TAUS_T = [0.5 * U, U, 1.5 * U, 2 * U, 3 * U, 4 * U, 9 * U]
MRTS_Q = [0.0, 6 * U]   # MRTS >= 6U needed to matter on a lattice of spacing U
MRTS_T = [0.0, 4 * U, 6 * U, 8 * U, 12 * U, 16 * U, 40 * U]


def plan(tier):
    if tier == "quick":
        specs = [([("dense", 1, 4)], TAUS_Q, MRTS_Q, True),
                 ([("dense", 5, 5)], TAUS_Q, MRTS_Q, False),
                 ([("bounded", 3, 6, 8)], TAUS_Q, MRTS_Q, False),
                 ([("near", 2, 3)], [2.0 ** -30, U], [0.0], True)]
    else:
        specs = [([("dense", 1, 5)], TAUS_T, MRTS_T[:4], True),
                 ([("dense", 6, 7)], TAUS_T, MRTS_Q, False),
                 ([("bounded", 3, 8, 11)], TAUS_Q, MRTS_Q, False),
                 ([("near", 2, 4)], [2.0 ** -30, 2.0 ** -29, U], [0.0, 2.0 ** -27], True)]
    tasks, descs = [], []
    for regimes, taus, ms, full in specs:
        tasks += pairs.regime_tasks(2, regimes, ["py", "pyx"],
                                    extra={"taus": taus, "mrts": ms, "full": full})
        d, _ = pairs.describe_regimes(regimes, 2)
        for x in d:
            x["max_tau_menu"] = ["None", 0.0] + taus
            x["MRTS_menu"] = ms
            x["functions"] = ["spike_sync_profile", "spike_train_order_profile"] + \
                (["spike_directionality_values", "filter_by_spike_sync", "spike_sync"]
                 if full else [])
        descs += d
    return {
        "tasks": tasks,
        "bounds": {"regimes": descs, "lattice": {"t0": 0.5, "u": U},
                   "backends": ["py", "pyx-model"]},
        "rule": "breadth-first enumeration of all ordered pairs of spike trains on the time "
                "lattice for every clock in the stated regimes (bounded regime reaches the "
                "long ISIs needed for three-spike counter-examples, clock >= 7), times all "
                "max_tau of the menu in ascending order, times the MRTS menu; non-trivial = "
                "both trains carry spikes; distinct = behaviour signatures",
        "exhaustive": True,
        "assumptions": ["spike times restricted to the dyadic lattice (DESIGN 2.1)",
                        "oracle uses outputs only: a marked spike must have a spike of the other "
                        "train strictly closer than max_tau",
                        "pyx configuration = rendered .pyx sources (DESIGN 2.6)"],
        "explanation": "no reference model: coincidence marks of all coincidence-based public "
                       "functions are checked against the spike-time differences, None == 0 "
                       "bit-identically, marks monotone in max_tau",
    }


def list_forms(spk, st1, st2, edges, kw):
    """the same coincidences seen through the list / indices / typed-keyword forms; every
    entry must reproduce the bivariate result of the same call"""
    e = spk.SpikeTrain([], edges)
    l3 = [st1, st2, e]
    f = {}
    p = spk.spike_sync_profile([st1, st2], **kw)
    f["sync_profile([a,b])"] = ("sy", np.asarray(p.y, float))
    p = spk.spike_sync_profile(l3, **kw)
    f["sync_profile([a,b,empty])"] = ("sy", np.asarray(p.y, float))
    p = spk.spike_sync_profile(l3, indices=[1, 0], **kw)
    f["sync_profile(list,indices=[1,0])"] = ("sy", np.asarray(p.y, float))
    p = spk.spike_train_order_profile(l3, **kw)
    f["order_profile([a,b,empty])"] = ("oy", np.asarray(p.y, float))
    p = spk.spike_train_order_profile([st1, st2], **kw)
    f["order_profile([a,b])"] = ("oy", np.asarray(p.y, float))
    dv = spk.spike_directionality_values(l3, indices=[0, 1], **kw)
    f["directionality_values(list,indices=[0,1])"] = ("d12", np.concatenate(
        [np.asarray(dv[0], float), np.asarray(dv[1], float)]))
    dv = spk.spike_directionality_values(l3, **kw)
    f["directionality_values([a,b,empty])"] = ("d12", 2 * np.concatenate(
        [np.asarray(dv[0], float), np.asarray(dv[1], float)]))
    M = np.asarray(spk.spike_directionality_matrix(l3, normalize=False, **kw), float)
    f["directionality_matrix([a,b,empty])[0,1]"] = ("dsum", np.array([M[0, 1]]))
    k = spk.filter_by_spike_sync(l3, 0.0, **kw)
    f["filter([a,b,empty],0)"] = ("k12", np.array(k[0].spikes.tolist() + [np.inf] +
                                                  k[1].spikes.tolist()))
    f["spike_sync([a,b])"] = ("v", np.array([float(spk.spike_sync([st1, st2], **kw))]))
    f["spike_sync_matrix([a,b,empty])[0,1]"] = ("v", np.array(
        [np.asarray(spk.spike_sync_matrix(l3, **kw), float)[0, 1]]))
    mt = kw.get("max_tau")
    if mt is not None and mt > 0 and float(mt * 8).is_integer():
        # the same recording on a time axis scaled by 8 (C08), where max_tau is an integer
        # number: passed as Python int and as numpy float32
        sc = 8.0
        a1 = spk.SpikeTrain([t * sc for t in st1.spikes], [edges[0] * sc, edges[1] * sc])
        a2 = spk.SpikeTrain([t * sc for t in st2.spikes], [edges[0] * sc, edges[1] * sc])
        for conv, nm in ((int, "int"), (np.float32, "float32")):
            kw2 = dict(kw, max_tau=conv(mt * sc), MRTS=kw.get("MRTS", 0.0) * sc)
            p = spk.spike_sync_profile(a1, a2, **kw2)
            f["sync_profile(max_tau=%s)" % nm] = ("sy", np.asarray(p.y, float))
            p = spk.spike_train_order_profile(a1, a2, **kw2)
            f["order_profile(max_tau=%s)" % nm] = ("oy", np.asarray(p.y, float))
            k = spk.filter_by_spike_sync([a1, a2], 0.5, **kw2)
            f["filter(max_tau=%s)" % nm] = ("k12", np.array(
                [t / sc for t in k[0].spikes.tolist()] + [np.inf] +
                [t / sc for t in k[1].spikes.tolist()]))
            dv = spk.spike_directionality_values(a1, a2, **kw2)
            f["directionality_values(max_tau=%s)" % nm] = ("d12", np.concatenate(
                [np.asarray(dv[0], float), np.asarray(dv[1], float)]))
            f["spike_sync(max_tau=%s)" % nm] = ("v", np.array([float(spk.spike_sync(a1, a2, **kw2))]))
    return f


def _near(t, other, tau):
    return any(abs(t - s) < tau for s in other)


def evaluate(r, trains, edges, taus, mrts, full, be, rank=(), task_mrts0=0.0):
    import pyspike as spk
    ts, te = edges
    st1 = spk.SpikeTrain(trains[0], edges)
    st2 = spk.SpikeTrain(trains[1], edges)
    cls = pairs.classes(trains, ts, te)
    case = {"trains": trains, "edges": edges, "taus": taus, "MRTS": mrts, "full": full}
    s1, s2 = set(trains[0]), set(trains[1])
    r.evaluations += 1
    menu = [None, 0.0] + list(taus)
    res = []
    T = te - ts
    ivals = [(ts, ts + T / 2), (ts + T / 4, te - T / 4), (ts + T / 2, te)] if full else []
    try:
        for mt in menu:
            kw = dict(max_tau=mt, MRTS=mrts)
            p = spk.spike_sync_profile(st1, st2, **kw)
            o = spk.spike_train_order_profile(st1, st2, **kw)
            d = {"sx": np.asarray(p.x, float), "sy": np.asarray(p.y, float),
                 "smp": np.asarray(p.mp, float), "ox": np.asarray(o.x, float),
                 "oy": np.asarray(o.y, float), "omp": np.asarray(o.mp, float)}
            if full:
                dv = spk.spike_directionality_values(st1, st2, **kw)
                d["d1"] = np.asarray(dv[0], float)
                d["d2"] = np.asarray(dv[1], float)
                kept = spk.filter_by_spike_sync([st1, st2], 0.5, **kw)
                d["k1"] = kept[0].spikes.tolist()
                d["k2"] = kept[1].spikes.tolist()
                d["v"] = float(spk.spike_sync(st1, st2, **kw))
                # scalar forms with an averaging interval, and through a longer list
                d["iv"] = []
                for iv in ivals:
                    d["iv"].append((float(spk.spike_sync(st1, st2, interval=list(iv), **kw)),
                                    float(p.avrg(list(iv)))))
                d["m"] = np.asarray(spk.spike_sync_matrix([st1, st2, st1], **kw), float)[0, 1]
                d["o"] = float(spk.spike_train_order(st1, st2, normalize=False, **kw))
                d["forms"] = list_forms(spk, st1, st2, edges, kw) \
                    if (mt is None or mt in (taus[0], taus[1])) and mrts == task_mrts0 else {}
            res.append(d)
    except Exception as e:
        r.violation(ID, "exception", be, "exception/%s/%s" % (be, cls), case, "results",
                    "%s: %s" % (type(e).__name__, e),
                    "a coincidence-based function raised on valid input", rank)
        return
    # None and 0 are identical
    a, b = res[0], res[1]
    for k in a:
        if k == "forms":
            continue
        same = (a[k] == b[k]) if not isinstance(a[k], np.ndarray) else \
            (a[k].shape == b[k].shape and np.array_equal(a[k], b[k]))
        if not same:
            r.violation(ID, "none_vs_zero", be, "none_vs_zero/%s/%s/%s" % (k, be, cls), case,
                        a[k], b[k], "max_tau=None and max_tau=0 give different results (%s)" % k,
                        rank)
            return
    # bound: a marked spike has a partner closer than max_tau
    for mt, d in zip(menu[2:], res[2:]):
        for t, y, mp in zip(d["sx"][1:-1], d["sy"][1:-1], d["smp"][1:-1]):
            if mp == 1 and y != 0:
                other = trains[1] if t in s1 else trains[0]
                if not _near(t, other, mt):
                    r.violation(ID, "bound.sync_profile", be,
                                "bound.sync_profile/%s/%s" % (be, cls),
                                dict(case, max_tau=mt, t=float(t)),
                                "not coincident (no spike of the other train closer than max_tau)",
                                {"x": d["sx"], "y": d["sy"]},
                                "spike marked coincident although the nearest spike of the other "
                                "train is max_tau or more away", rank)
                    return
        for t, y, mp in zip(d["ox"][1:-1], d["oy"][1:-1], d["omp"][1:-1]):
            if mp == 1 and y != 0:
                other = trains[1] if t in s1 else trains[0]
                if not _near(t, other, mt):
                    r.violation(ID, "bound.order_profile", be,
                                "bound.order_profile/%s/%s" % (be, cls),
                                dict(case, max_tau=mt, t=float(t)), 0.0,
                                {"x": d["ox"], "y": d["oy"]},
                                "order profile non-zero for a spike whose nearest partner is "
                                "max_tau or more away", rank)
                    return
        if full:
            for tr, other, dd, name in ((trains[0], trains[1], d["d1"], "d1"),
                                        (trains[1], trains[0], d["d2"], "d2")):
                for t, v in zip(tr, dd):
                    if v != 0 and not _near(t, other, mt):
                        r.violation(ID, "bound.directionality", be,
                                    "bound.directionality/%s/%s" % (be, cls),
                                    dict(case, max_tau=mt, t=float(t)), 0.0, dd,
                                    "directionality value non-zero for a spike whose nearest "
                                    "partner is max_tau or more away", rank)
                        return
            for tr, other, kk in ((trains[0], trains[1], d["k1"]), (trains[1], trains[0], d["k2"])):
                for t in kk:
                    if not _near(t, other, mt):
                        r.violation(ID, "bound.filter", be, "bound.filter/%s/%s" % (be, cls),
                                    dict(case, max_tau=mt, t=float(t)), "spike removed", kk,
                                    "filter keeps a spike of a pair although no spike of the "
                                    "other train is closer than max_tau", rank)
                        return
    # scalar forms see the same (bounded) coincidences as the profile
    if full:
        for mt, d in zip(menu, res):
            sy, smp = d["sy"][1:-1].sum(), d["smp"][1:-1].sum()
            ve = sy / smp if smp > 0 else 1.0
            bad = None
            if abs(d["v"] - ve) > 1e-12 or abs(d["m"] - ve) > 1e-12:
                bad = ("scalar", ve, {"spike_sync": d["v"], "matrix_entry": d["m"]})
            elif abs(d["o"] - d["oy"][1:-1].sum()) > 1e-12:
                bad = ("order_scalar", float(d["oy"][1:-1].sum()), d["o"])
            else:
                for iv, (a, b) in zip(ivals, d["iv"]):
                    if abs(a - b) > 1e-12:
                        bad = ("scalar.interval", b, {"spike_sync": a, "interval": iv})
                        break
            if not bad:
                ref = {"sy": d["sy"][1:-1], "oy": d["oy"][1:-1],
                       "d12": np.concatenate([d["d1"], d["d2"]]),
                       "dsum": np.array([d["d1"].sum()]),
                       "k12": np.array(d["k1"] + [np.inf] + d["k2"]), "v": np.array([d["v"]])}
                for fname, (key, val) in d["forms"].items():
                    got = val[1:-1] if key in ("sy", "oy") else val
                    if got.shape != ref[key].shape or not np.all(
                            (got == ref[key]) | (np.abs(got - ref[key]) <= 1e-12)):
                        bad = ("form", ref[key], {fname: got})
                        break
            if bad:
                r.violation(ID, "bound." + bad[0], be, "bound.%s/%s/%s" % (bad[0], be, cls),
                            dict(case, max_tau=mt), bad[1], bad[2],
                            "a scalar form counts coincidences that the (max_tau-bounded) profile "
                            "of the same call does not contain", rank)
                return
    # monotone: enlarging max_tau never removes a coincidence; None is the largest
    order = list(range(2, len(menu))) + [0]
    for i1, i2 in zip(order[:-1], order[1:]):
        d1, d2 = res[i1], res[i2]
        ok = np.all(d1["sy"] <= d2["sy"]) and np.all(np.abs(d1["oy"]) <= np.abs(d2["oy"]))
        if full and ok:
            ok = np.all(np.abs(d1["d1"]) <= np.abs(d2["d1"])) and \
                np.all(np.abs(d1["d2"]) <= np.abs(d2["d2"])) and \
                set(d1["k1"]) <= set(d2["k1"]) and set(d1["k2"]) <= set(d2["k2"]) and \
                d1["v"] <= d2["v"] + 1e-12
        if not ok:
            r.violation(ID, "monotone", be, "monotone/%s/%s" % (be, cls),
                        dict(case, tau_small=menu[i1], tau_large=menu[i2]),
                        "marks(tau_small) <= marks(tau_large)",
                        {"small": d1["sy"], "large": d2["sy"]},
                        "enlarging max_tau removed a coincidence", rank)
            return
    r.outcomes.add(tuple(tuple(d["sy"]) for d in res))


def check_state(r, k, masks, task):
    trains, edges = pairs.trains_edges(k, masks)
    ns = pairs.nspikes(masks)
    for mi, m in enumerate(task["mrts"]):
        evaluate(r, trains, edges, task["taus"], m, task["full"], task["backend"], (k, ns, mi))
    if r.states % 997 == 1:
        r.sample({"trains": trains, "edges": edges, "taus": task["taus"], "MRTS": task["mrts"]})


def run_task(task):
    return pairs.run_states(task, check_state, ID)


def replay(rec):
    r = Result()
    c = rec["case"]
    evaluate(r, c["trains"], c["edges"], c["taus"], c["MRTS"], c["full"], rec["backend"],
             tuple(rec.get("rank", ())))
    return r
