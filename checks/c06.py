"""C06 - multivariate results are the all-pairs aggregate and ignore list order."""
from bisect import bisect_right, bisect_left

import numpy as np

from mc import lattice, pairs
from mc.common import TOL, U, T0
from mc.runner import Result

ID = "C06"
LEVEL = "model_checking"

CONF_Q = [("isi", {}), ("isi", {"MRTS": 2 * U}), ("spike", {}), ("spike", {"MRTS": 1.5 * U, "RI": True}),
          ("sync", {}), ("sync", {"max_tau": U, "MRTS": 6 * U}), ("isi", {"MRTS": "auto"}),
          ("spike", {"MRTS": "auto"})]
CONF_T = CONF_Q + [("isi", {"MRTS": 40 * U}), ("spike", {"RI": True}), ("spike", {"MRTS": 3 * U}),
                   ("sync", {"max_tau": 0.5 * U}), ("sync", {"MRTS": 12 * U})]


def plan(tier):
    if tier == "quick":
        specs = [(3, [("dense", 1, 3)], CONF_Q), (4, [("dense", 1, 2)], CONF_Q[:5:2] + CONF_Q[5:]),
                 (3, [("near", 2, 2)], CONF_Q), (3, [("tiny", 2, 2)], CONF_Q[:5:2]),
                 (5, [("bounded", 1, 1, 2)], CONF_Q[::2]),
                 (4, [("bounded", 1, 3, 4)], CONF_Q[4:6]),      # non-zero coincidences for N=4
                 # many trains with at most one spike each: 15 and 21 pairs in the accumulation
                 (6, [("bounded", 1, 1, 1)], CONF_Q[:5:2]), (7, [("bounded", 1, 1, 1)], CONF_Q[:5:4])]
    else:
        specs = [(3, [("dense", 1, 4), ("bounded", 2, 5, 5)], CONF_T), (4, [("dense", 1, 3)], CONF_Q),
                 (3, [("near", 2, 2)], CONF_Q), (4, [("near", 2, 2)], CONF_Q[::2]),
                 (5, [("dense", 1, 1), ("bounded", 1, 2, 3)], CONF_Q),
                 (6, [("bounded", 1, 1, 3)], CONF_Q[:5:2]), (7, [("bounded", 1, 1, 2)], CONF_Q[:5:2]),
                 (8, [("bounded", 1, 1, 1)], CONF_Q[:5:2])]
    tasks, descs = [], []
    for N, regimes, conf in specs:
        tasks += pairs.regime_tasks(N, regimes, ["py", "pyx"], extra={"conf": conf}, nshards=48)
        d, _ = pairs.describe_regimes(regimes, N)
        for x in d:
            x["measure_configurations"] = conf
        descs += d
    return {
        "tasks": tasks,
        "bounds": {"regimes": descs, "lattice": {"t0": T0, "u": U},
                   "backends": ["py", "pyx-model"]},
        "rule": "breadth-first enumeration of all ordered N-tuples (N=3,4,5) of lattice spike trains "
                "(empty and repeated trains included; every permutation of a multiset is itself a "
                "state and is compared with the sorted arrangement of the same multiset), times the "
                "measure configurations; non-trivial = at least two trains carry spikes",
        "exhaustive": True,
        "assumptions": ["spike times restricted to the dyadic lattice",
                        "the bivariate profiles used as building blocks are the library's own "
                        "(decided by C01-C03); the aggregation is recomputed by the harness on "
                        "the raw (x, y...) arrays",
                        "pyx configuration = rendered .pyx sources (adds the cython add routines)"],
        "explanation": "multivariate profile vs mean / per-event sum of the N(N-1)/2 bivariate "
                       "profiles at every breakpoint limit; scalar vs mean / pooled ratio; matrices "
                       "vs bivariate values, symmetry and diagonal; result for the tuple vs result "
                       "for the sorted tuple",
    }


def _pwc_at(x, y, t):
    i = bisect_right(x, t) - 1
    i = min(max(i, 0), len(y) - 1)
    return y[i]


def _pwl_right(x, y1, y2, t):
    i = bisect_right(x, t) - 1
    i = min(max(i, 0), len(y1) - 1)
    return y1[i] + (y2[i] - y1[i]) * (t - x[i]) / (x[i + 1] - x[i])


def _pwl_left(x, y1, y2, t):
    i = bisect_left(x, t) - 1
    i = min(max(i, 0), len(y1) - 1)
    return y1[i] + (y2[i] - y1[i]) * (t - x[i]) / (x[i + 1] - x[i])


def _close(a, b):
    return len(a) == len(b) and all(abs(p - q) <= TOL for p, q in zip(a, b))


def evaluate(r, trains, edges, name, kw, be, rank=()):
    import pyspike as spk
    ts, te = edges
    n = len(trains)
    sts = [spk.SpikeTrain(t, edges) for t in trains]
    case = {"trains": trains, "edges": edges, "measure": name, "kwargs": kw}
    cls = "N%d" % n
    r.evaluations += 1
    r.traces += 1
    prof = {"isi": spk.isi_profile, "spike": spk.spike_profile, "sync": spk.spike_sync_profile}[name]
    dist = {"isi": spk.isi_distance, "spike": spk.spike_distance, "sync": spk.spike_sync}[name]
    mat = {"isi": spk.isi_distance_matrix, "spike": spk.spike_distance_matrix,
           "sync": spk.spike_sync_matrix}[name]
    pr = [(a, b) for a in range(n) for b in range(a + 1, n)]
    kwp = kw
    if kw.get("MRTS") == "auto":
        # 'auto' is the pooled threshold of the whole list (C15); the bivariate building
        # blocks get that threshold explicitly
        from pyspike.isi_lengths import default_thresh
        kwp = dict(kw, MRTS=float(default_thresh(sts)))
    try:
        pp = {ab: prof(sts[ab[0]], sts[ab[1]], **kwp) for ab in pr}
        pd = {ab: float(dist(sts[ab[0]], sts[ab[1]], **kwp)) for ab in pr}
        P = prof(sts, **kw)
        D = float(dist(sts, **kw))
        M = np.asarray(mat(sts, **kw), float)
        order = sorted(range(n), key=lambda i: (len(trains[i]), trains[i]))
        sts_s = [sts[i] for i in order]
        Ps = prof(sts_s, **kw)
        Ds = float(dist(sts_s, **kw))
    except Exception as e:
        r.violation(ID, "exception", be, "exception/%s/%s/%s" % (name, be, cls), case, "results",
                    "%s: %s" % (type(e).__name__, e), "a multivariate function raised", rank)
        return
    inner = sorted(set(t for tr in trains for t in tr if ts < t < te))
    xe = [ts] + inner + [te]
    x = np.asarray(P.x, float).tolist()
    npairs = float(len(pr))
    if name in ("isi", "spike"):
        if x != xe:
            r.violation(ID, "multi.x", be, "multi.x/%s/%s/%s" % (name, be, cls), case, xe, x,
                        "multivariate breakpoints are not the edges plus all distinct interior "
                        "spike times", rank)
            return
    if name == "isi":
        y = np.asarray(P.y, float).tolist()
        ye = []
        for a, b in zip(xe[:-1], xe[1:]):
            m = 0.5 * (a + b)
            ye.append(sum(_pwc_at(np.asarray(q.x).tolist(), np.asarray(q.y).tolist(), m)
                          for q in pp.values()) / npairs)
        if not _close(y, ye):
            r.violation(ID, "multi.profile", be, "multi.profile/isi/%s/%s" % (be, cls), case, ye, y,
                        "multivariate ISI profile is not the mean of the bivariate profiles", rank)
            return
        same = _close(np.asarray(Ps.x, float).tolist(), x) and _close(np.asarray(Ps.y, float).tolist(), y)
    elif name == "spike":
        y1 = np.asarray(P.y1, float).tolist()
        y2 = np.asarray(P.y2, float).tolist()
        raw = [(np.asarray(q.x).tolist(), np.asarray(q.y1).tolist(), np.asarray(q.y2).tolist())
               for q in pp.values()]
        y1e = [sum(_pwl_right(qx, q1, q2, a) for qx, q1, q2 in raw) / npairs for a in xe[:-1]]
        y2e = [sum(_pwl_left(qx, q1, q2, b) for qx, q1, q2 in raw) / npairs for b in xe[1:]]
        if not (_close(y1, y1e) and _close(y2, y2e)):
            r.violation(ID, "multi.profile", be, "multi.profile/spike/%s/%s" % (be, cls), case,
                        {"y1": y1e, "y2": y2e}, {"y1": y1, "y2": y2},
                        "multivariate SPIKE profile is not the mean of the bivariate profiles "
                        "(one-sided limits at every breakpoint)", rank)
            return
        same = _close(np.asarray(Ps.x, float).tolist(), x) and \
            _close(np.asarray(Ps.y1, float).tolist(), y1) and _close(np.asarray(Ps.y2, float).tolist(), y2)
    else:
        ev = {}
        c_tot, m_tot = 0.0, 0.0
        for q in pp.values():
            qx, qy, qm = (np.asarray(v, float).tolist() for v in (q.x, q.y, q.mp))
            for t, yy, mm in zip(qx[1:-1], qy[1:-1], qm[1:-1]):
                c = ev.setdefault(t, [0.0, 0.0])
                c[0] += yy
                c[1] += mm
                c_tot += yy
                m_tot += mm
        tt = sorted(ev)
        xe2 = [ts] + tt + [te]
        y = np.asarray(P.y, float).tolist()
        mp = np.asarray(P.mp, float).tolist()
        if x != xe2 or y[1:-1] != [ev[t][0] for t in tt] or mp[1:-1] != [ev[t][1] for t in tt]:
            r.violation(ID, "multi.profile", be, "multi.profile/sync/%s/%s" % (be, cls), case,
                        {"x": xe2, "y": [ev[t][0] for t in tt], "mp": [ev[t][1] for t in tt]},
                        {"x": x, "y": y[1:-1], "mp": mp[1:-1]},
                        "multivariate SPIKE-Sync profile does not carry the summed coincidence "
                        "counts and multiplicities of all pairs at every spike time", rank)
            return
        same = np.asarray(Ps.x, float).tolist() == x and \
            np.asarray(Ps.y, float).tolist()[1:-1] == y[1:-1] and \
            np.asarray(Ps.mp, float).tolist()[1:-1] == mp[1:-1]
    if not same or not abs(Ds - D) <= TOL:
        r.violation(ID, "order_independence", be, "order_independence/%s/%s/%s" % (name, be, cls),
                    dict(case, sorted_order=order), {"distance": Ds}, {"distance": D},
                    "result depends on the order of the trains in the list", rank)
        return
    # scalar
    if name == "sync":
        De = c_tot / m_tot if m_tot > 0 else 1.0
    else:
        De = sum(pd.values()) / npairs
    if not abs(D - De) <= TOL:
        r.violation(ID, "multi.scalar", be, "multi.scalar/%s/%s/%s" % (name, be, cls), case, De, D,
                    "multivariate value is not the mean of the pair distances / total "
                    "coincidences over total multiplicity", rank)
        return
    # the same with an averaging sub-interval (second half / middle half of the recording)
    T = te - ts
    for iv in ([ts + T / 2, te], [ts + T / 4, te - T / 4],
               [[ts, ts + T / 4], [ts + T / 2, te]]):      # the last one: a sequence of intervals
        try:
            Di = float(dist(sts, interval=iv, **kw))
            if name == "sync":
                cs = ms = 0.0
                for q in pp.values():
                    c_, m_ = q.integral(iv)
                    cs += c_
                    ms += m_
                Die = cs / ms if ms > 0 else 1.0
            else:
                Die = sum(float(q.avrg(iv)) for q in pp.values()) / npairs
        except Exception as e:
            r.violation(ID, "exception", be, "exception.interval/%s/%s/%s" % (name, be, cls),
                        dict(case, interval=iv), "a number", "%s: %s" % (type(e).__name__, e),
                        "multivariate distance with interval raised", rank)
            return
        if not abs(Di - Die) <= TOL:
            r.violation(ID, "multi.scalar.interval", be,
                        "multi.scalar.interval/%s/%s/%s" % (name, be, cls), dict(case, interval=iv),
                        Die, Di, "multivariate value over a sub-interval is not the mean of the pair "
                        "values / pooled ratio over that interval", rank)
            return
    # matrix
    Me = np.zeros((n, n))
    for (a, b), v in pd.items():
        Me[a, b] = Me[b, a] = v
    if name == "sync":
        for a in range(n):
            Me[a, a] = 1.0
    if M.shape != (n, n) or not np.all(np.abs(M - Me) <= TOL) or \
            not np.all(np.abs(M - M.T) <= TOL):
        r.violation(ID, "matrix", be, "matrix/%s/%s/%s" % (name, be, cls), case, Me, M,
                    "distance matrix does not contain exactly the bivariate values / is not "
                    "symmetric / wrong diagonal", rank)
        return
    r.outcomes.add((name, round(D, 9)))


def check_state(r, k, masks, task):
    trains, edges = pairs.trains_edges(k, masks)
    ns = pairs.nspikes(masks)
    for ci, (name, kw) in enumerate(task["conf"]):
        evaluate(r, trains, edges, name, kw, task["backend"], (k, ns, ci))
    if r.states % 499 == 1:
        r.sample({"trains": trains, "edges": edges})


def run_task(task):
    return pairs.run_states(task, check_state, ID)


def replay(rec):
    r = Result()
    c = rec["case"]
    evaluate(r, c["trains"], c["edges"], c["measure"], c["kwargs"], rec["backend"],
             tuple(rec.get("rank", ())))
    return r
