"""C03 - SPIKE-Sync profile marks exactly the mutually coincident spikes."""
import numpy as np

from mc import lattice, oracles as O, pairs
from mc.common import TOL, U
from mc.runner import Result
from mc.measures import bivariate_forms

ID = "C03"
LEVEL = "model_checking"

# (max_tau, MRTS); MRTS/4 ties with half-ISIs for MRTS = 2*ISI
# on a lattice with spacing U the MRTS interpolation can only create a coincidence when
# MRTS/4 > U, i.e. MRTS >= 6U (distance U) or >= 12U (distance 2U)
MENU_DENSE_Q = [(None, 0.0), (0.0, 0.0), (U, 0.0), (0.5 * U, 0.0), (None, 4 * U),
                (None, 6 * U), (1.5 * U, 8 * U), (None, 12 * U)]
MENU_BOUNDED_Q = [(None, 0.0), (U, 0.0), (None, 6 * U), (2 * U, 12 * U)]
MENU_T = [(mt, m) for mt in (None, 0.0, 0.5 * U, U, 2 * U, 9 * U)
          for m in (0.0, 4 * U, 6 * U, 8 * U, 12 * U, 40 * U)]


def plan(tier):
    if tier == "quick":
        specs = [([("dense", 1, 5)], MENU_DENSE_Q), ([("bounded", 3, 6, 8)], MENU_BOUNDED_Q),
                 ([("near", 2, 3)], MENU_BOUNDED_Q + [(2.0 ** -30, 0.0), (None, 2.0 ** -28)]),
                 ([("far", 1, 4)], MENU_BOUNDED_Q), ([("tiny", 2, 3)], MENU_BOUNDED_Q[:2])]
    else:
        specs = [([("dense", 1, 6)], MENU_T), ([("dense", 7, 7)], MENU_DENSE_Q),
                 ([("bounded", 3, 8, 10)], MENU_DENSE_Q + MENU_BOUNDED_Q[2:]),
                 ([("near", 2, 4)], MENU_BOUNDED_Q + [(2.0 ** -30, 0.0), (None, 2.0 ** -28)])]
    tasks, descs = [], []
    for regimes, menu in specs:
        tasks += pairs.regime_tasks(2, regimes, ["py", "pyx"], extra={"menu": menu})
        d, _ = pairs.describe_regimes(regimes, 2)
        for x in d:
            x["menu_max_tau_MRTS"] = menu
        descs += d
    return {
        "tasks": tasks,
        "bounds": {"regimes": descs, "lattice": {"t0": 0.5, "u": U},
                   "backends": ["py", "pyx-model"]},
        "rule": "breadth-first enumeration of all ordered pairs of spike trains on the time "
                "lattice for every clock in the stated regimes, times the (max_tau, MRTS) menu "
                "(ties |dt| == window are lattice points by construction); non-trivial = both "
                "trains carry spikes; distinct = behaviour signatures",
        "exhaustive": True,
        "assumptions": [
            "spike times restricted to the dyadic lattice (DESIGN 2.1)",
            "for MRTS > 0 the window is the thresholded interpolation documented in the "
            "library (leader towards its following ISI, follower towards its preceding ISI)",
            "max_tau > 0 caps the window (C16)",
            "pyx configuration = rendered .pyx sources (DESIGN 2.6)",
        ],
        "explanation": "spike_sync_profile / spike_sync / per-spike indicator (observed "
                       "through filter_by_spike_sync on the pair) compared with an all-pairs "
                       "coincidence model; the model itself asserts one-to-one coincidence",
    }


_HELD = []


def check_held(r, be):
    """a profile returned by an earlier call must still hold the same data"""
    for prof, saved, case in _HELD:
        for k, v in saved.items():
            if not np.array_equal(np.asarray(getattr(prof, k), float), v):
                r.violation(ID, "stale_result", be, "stale_result/%s" % be,
                            dict(case, later_calls="the calls made for the following states"),
                            {k: v for k, v in saved.items()},
                            {k: np.asarray(getattr(prof, k), float) for k in saved},
                            "a profile object returned earlier was modified by later calls")
                break
    del _HELD[:]


def hold(prof, case):
    _HELD.append((prof, {k: np.array(getattr(prof, k), dtype=float) for k in ('x', 'y', 'mp')}, case))


def evaluate(r, trains, edges, max_tau, mrts, be, rank=()):
    import pyspike as spk
    ts, te = edges
    st1 = spk.SpikeTrain(trains[0], edges)
    st2 = spk.SpikeTrain(trains[1], edges)
    case = {"trains": trains, "edges": edges, "max_tau": max_tau, "MRTS": mrts}
    cls = pairs.classes(trains, ts, te)
    A, B, ets, ete = O.exl(trains[0]), O.exl(trains[1]), O.ex(ts), O.ex(te)
    emt = O.ex(max_tau) if max_tau else 0
    em = O.ex(mrts)
    xs, ys, ms = O.sync_profile(A, B, ets, ete, emt, em)
    r.evaluations += 1
    r.traces += 1
    tag = "mt" if max_tau else "nomt"
    try:
        p = spk.spike_sync_profile(st1, st2, max_tau=max_tau, MRTS=mrts)
        check_held(r, be)       # the profile of the previous call, after this call was made
        hold(p, case)
        x = np.asarray(p.x, dtype=float)
        y = np.asarray(p.y, dtype=float)
        mp = np.asarray(p.mp, dtype=float)
    except Exception as e:
        r.violation(ID, "sync_profile.exception", be, "sync_profile.exception/%s/%s" % (be, cls),
                    case, "a profile", "%s: %s" % (type(e).__name__, e),
                    "spike_sync_profile raised on valid input", rank)
        return
    xf = [ts] + [v / O.SCALE for v in xs] + [te]
    if list(x) != xf or len(y) != len(x) or len(mp) != len(x):
        r.violation(ID, "sync_profile.x", be, "sync_profile.x/%s/%s" % (be, cls), case, xf,
                    {"x": x, "len_y": len(y), "len_mp": len(mp)},
                    "entries are not: edge, one per distinct spike time, edge", rank)
        return
    if list(y[1:-1]) != [float(v) for v in ys] or list(mp[1:-1]) != [float(v) for v in ms]:
        r.violation(ID, "sync_profile.marks", be,
                    "sync_profile.marks/%s/%s/%s" % (be, tag, cls), case,
                    {"y": ys, "mp": ms}, {"y": y[1:-1], "mp": mp[1:-1]},
                    "coincidence marks / multiplicities differ from the all-pairs definition",
                    rank)
        return
    r.outcomes.add((tuple(ys), tuple(ms)))
    # the same bivariate profile through the list and `indices` call forms
    try:
        for fname, q in bivariate_forms(spk.spike_sync_profile, st1, st2, edges,
                                        max_tau=max_tau, MRTS=mrts):
            qy, qm = np.asarray(q.y, float), np.asarray(q.mp, float)
            if list(np.asarray(q.x, float)) != xf or list(qy[1:-1]) != [float(v) for v in ys] or \
                    list(qm[1:-1]) != [float(v) for v in ms]:
                r.violation(ID, "sync_profile.form", be,
                            "sync_profile.form/%s/%s/%s" % (be, tag, cls), dict(case, form=fname),
                            {"y": ys, "mp": ms}, {"x": q.x, "y": qy[1:-1], "mp": qm[1:-1]},
                            "the profile of the two trains obtained through call form %s differs "
                            "from the definition" % fname, rank)
                return
    except Exception as e:
        r.violation(ID, "sync_profile.form", be, "sync_profile.form.exception/%s/%s" % (be, cls),
                    case, "a profile", "%s: %s" % (type(e).__name__, e),
                    "a list / indices call form raised", rank)
        return
    # scalar
    try:
        v = float(spk.spike_sync(st1, st2, max_tau=max_tau, MRTS=mrts))
    except Exception as e:
        r.violation(ID, "spike_sync.exception", be, "spike_sync.exception/%s/%s" % (be, cls),
                    case, "a number", "%s: %s" % (type(e).__name__, e),
                    "spike_sync raised on valid input", rank)
        return
    ve = (sum(ys) / float(sum(ms))) if sum(ms) > 0 else 1.0
    if not abs(v - ve) <= TOL:
        r.violation(ID, "spike_sync.value", be, "spike_sync.value/%s/%s" % (be, cls), case,
                    ve, v, "SPIKE-Sync value differs from coincidences / multiplicity", rank)
        return
    # per-spike indicator used for filtering, both argument orders
    for (a, b, sa, sb, name) in ((A, B, st1, st2, "12"), (B, A, st2, st1, "21")):
        ind = O.indicator(a, b, ets, ete, emt, em)
        try:
            kept, removed = spk.filter_by_spike_sync([sa, sb], 0.5, max_tau=max_tau,
                                                     return_removed_spikes=True, MRTS=mrts)
            got = [1 if t in set(kept[0].spikes.tolist()) else 0 for t in sa.spikes.tolist()]
        except Exception as e:
            r.violation(ID, "indicator.exception", be, "indicator.exception/%s/%s" % (be, cls),
                        case, "kept/removed trains", "%s: %s" % (type(e).__name__, e),
                        "filter_by_spike_sync raised on a valid pair", rank)
            return
        if got != ind:
            r.violation(ID, "indicator", be, "indicator/%s/%s/%s" % (be, tag, cls),
                        dict(case, order=name), ind, got,
                        "per-spike coincidence indicator disagrees with the definition", rank)
            return
        # and it agrees with the profile mark of that spike
        marks = {t: (yy, mm) for t, yy, mm in zip(x[1:-1], y[1:-1], mp[1:-1])}
        for t, g in zip(sa.spikes.tolist(), got):
            yy, mm = marks[t]
            if (yy / mm >= 1.0) != bool(g):
                r.violation(ID, "indicator.vs.profile", be,
                            "indicator.vs.profile/%s/%s" % (be, cls), dict(case, order=name),
                            {"profile": [yy, mm]}, {"indicator": g, "t": t},
                            "per-spike indicator and profile mark disagree", rank)
                return
    # both trains contribute the same number of coincident spikes
    i12 = O.indicator(A, B, ets, ete, emt, em)
    i21 = O.indicator(B, A, ets, ete, emt, em)
    assert sum(i12) == sum(i21), "oracle self-check: coincidence not mutual"


def check_state(r, k, masks, task):
    trains, edges = pairs.trains_edges(k, masks)
    ns = pairs.nspikes(masks)
    for mi, (mt, m) in enumerate(task["menu"]):
        evaluate(r, trains, edges, mt, m, task["backend"], (k, ns, mi))
    if r.states % 997 == 1:
        r.sample({"trains": trains, "edges": edges, "menu": task["menu"]})


def run_task(task):
    return pairs.run_states(task, check_state, ID)


def replay(rec):
    r = Result()
    c = rec["case"]
    evaluate(r, c["trains"], c["edges"], c["max_tau"], c["MRTS"], rec["backend"],
             tuple(rec.get("rank", ())))
    return r
