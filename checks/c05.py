"""C05 - every scalar measure equals the average of its profile over the same interval."""
import numpy as np

from mc import lattice, pairs
from mc.common import TOL, U, T0
from mc.runner import Result

ID = "C05"
LEVEL = "model_checking"

# measure configurations: (name, kwargs)
CONF_Q = [("isi", {}), ("isi", {"MRTS": 2 * U}), ("spike", {}), ("spike", {"RI": True}),
          ("spike", {"MRTS": 1.5 * U}), ("spike", {"MRTS": 2 * U, "RI": True}),
          ("sync", {}), ("sync", {"max_tau": U}), ("sync", {"MRTS": 6 * U}),
          ("order", {}), ("order", {"max_tau": U, "MRTS": 6 * U})]
CONF_T = CONF_Q + [("isi", {"MRTS": 40 * U}), ("isi", {"MRTS": "auto"}),
                   ("spike", {"MRTS": 4 * U}), ("spike", {"MRTS": "auto", "RI": True}),
                   ("sync", {"max_tau": 0.5 * U, "MRTS": 8 * U}), ("sync", {"MRTS": "auto"}),
                   ("sync", {"max_tau": 2 * U}), ("order", {"MRTS": 12 * U}),
                   ("order", {"max_tau": 2 * U})]


CONF_AUTO = [("isi", {"MRTS": "auto"}), ("spike", {"MRTS": "auto", "RI": True}),
             ("sync", {"MRTS": "auto"}), ("order", {"MRTS": "auto"})]
# index selections tried for N >= 3 (whole-recording comparison only)
SELS = {3: [[2, 0], [1, 2, 0]], 4: [[3, 1], [2, 0, 3, 1]]}
CONF_Q4 = [("isi", {"MRTS": 2 * U}), ("spike", {"RI": True}), ("sync", {"max_tau": U}),
           ("order", {})]


def intervals(k, tier):
    """all half-lattice sub-intervals [a,b], a<b (ends on and between breakpoints)"""
    if k < 0:
        G = pairs.near_grid(-k)
        pts = []
        for a, b in zip(G[:-1], G[1:]):
            pts += [a, 0.5 * (a + b)]
        pts.append(G[-1])
    else:
        pts = [T0 + j * U / 2 for j in range(2 * k + 1)]
    out = [(a, b) for i, a in enumerate(pts) for b in pts[i + 1:]]
    if tier == "some":
        n = len(pts) - 1
        idx = {(0, 1), (0, n // 2), (1, n - 1), (n // 2, n), (1, 2), (n - 1, n), (2, n),
               (0, n - 1), (1, n)}
        out = sorted((pts[i], pts[j]) for i, j in idx if i < j)
    return out


def plan(tier):
    if tier == "quick":
        specs = [(2, [("dense", 1, 3)], CONF_Q + CONF_AUTO, "all"),
                 (2, [("dense", 4, 5)], CONF_Q[::2] + CONF_Q[9:], "some"),
                 (3, [("dense", 1, 3)], CONF_Q + CONF_AUTO, "some"),
                 (3, [("near", 2, 2)], CONF_Q[:6], "some"),
                 (4, [("dense", 1, 2)], CONF_Q4, "some"),
                 # non-zero order / directionality values need clock >= 3 (DESIGN 2.1)
                 (4, [("bounded", 1, 3, 3)], CONF_Q4, "some")]
    else:
        specs = [(2, [("dense", 1, 4)], CONF_T, "all"), (2, [("dense", 5, 6)], CONF_T, "some"),
                 (3, [("dense", 1, 3)], CONF_T, "all"), (3, [("dense", 4, 4)], CONF_Q, "some"),
                 (3, [("near", 2, 2)], CONF_Q[:6], "all"), (2, [("near", 2, 3)], CONF_Q, "all"),
                 (4, [("dense", 1, 3)], CONF_Q, "some")]
    tasks, descs = [], []
    for N, regimes, conf, ivm in specs:
        tasks += pairs.regime_tasks(N, regimes, ["py", "pyx"], extra={"conf": conf, "ivm": ivm},
                                    nshards=48)
        d, _ = pairs.describe_regimes(regimes, N)
        for x in d:
            x["measure_configurations"] = conf
            x["intervals"] = "None and every [a,b], a<b, on the half-lattice t0+j*u/2" \
                if ivm == "all" else "None and up to 9 half-lattice intervals (ends on/between " \
                "breakpoints, on the edges, inside one piece)"
        descs += d
    return {
        "tasks": tasks,
        "bounds": {"regimes": descs, "lattice": {"t0": T0, "u": U},
                   "backends": ["py", "pyx-model"]},
        "rule": "breadth-first enumeration of all ordered N-tuples (N=2,3,4) of lattice spike "
                "trains for every clock in the stated regimes, times the measure configurations, "
                "times interval=None and every half-lattice sub-interval; non-trivial = at least "
                "two trains carry spikes; distinct = behaviour signatures",
        "exhaustive": True,
        "assumptions": ["spike times and interval ends restricted to the dyadic (half-)lattice",
                        "spike-train order accepts no sub-interval (NotImplementedError), so it is "
                        "compared for interval=None only",
                        "pyx configuration = rendered .pyx sources; there the scalar route runs "
                        "the separately written single-pass kernels (DESIGN 2.6)"],
        "explanation": "differential oracle stated by the property: X_distance(list, interval=I, "
                       "**kw) vs X_profile(list, **kw).avrg(I) (ratio of sums for discrete "
                       "profiles, 1 when no spike inside)",
    }


def _fns(name):
    import pyspike as spk
    return {"isi": (spk.isi_distance, spk.isi_profile),
            "spike": (spk.spike_distance, spk.spike_profile),
            "sync": (spk.spike_sync, spk.spike_sync_profile),
            "order": (spk.spike_train_order, spk.spike_train_order_profile)}[name]


def evaluate(r, trains, edges, name, kw, ivals, be, rank=(), indices=None):
    import pyspike as spk
    sts = [spk.SpikeTrain(t, edges) for t in trains]
    dist, prof = _fns(name)
    cls = "N%d" % len(trains) + ("" if indices is None else "/indices")
    case = {"trains": trains, "edges": edges, "measure": name, "kwargs": kw}
    args = sts if len(sts) == 2 else [sts]
    if indices is not None:
        case["indices"] = indices
        kw = dict(kw, indices=indices)
    try:
        p = prof(*args, **kw)
    except Exception as e:
        r.violation(ID, "profile.exception", be, "profile.exception/%s/%s/%s" % (name, be, cls),
                    case, "a profile", "%s: %s" % (type(e).__name__, e),
                    "profile function raised on valid input", rank)
        return
    if name == "order":
        try:
            if float(p.integral()[1]) == 0.0:
                # no spike at all: the statement defines no value for 0/0 (only SPIKE-Sync is
                # 1 by convention); C18 requires the result to be finite
                return
        except Exception:
            pass
    for iv in ivals:
        r.evaluations += 1
        try:
            if iv is None:
                a = float(p.avrg())
                d = float(dist(*args, **kw))
            else:
                a = float(p.avrg(list(iv)))
                d = float(dist(*args, interval=list(iv), **kw))
        except Exception as e:
            r.violation(ID, "exception", be, "exception/%s/%s/%s" % (name, be, cls),
                        dict(case, interval=iv), "two numbers", "%s: %s" % (type(e).__name__, e),
                        "distance or profile average raised for an interval inside the recording",
                        rank)
            return
        # integrals over very short intervals (near-tie grids) are formed by cancellation:
        # their absolute error ~1e-16 is divided by the interval length
        tol = TOL if iv is None else TOL + 1e-13 / (iv[1] - iv[0])
        if not (abs(a - d) <= tol):
            sub = "whole" if iv is None else "interval"
            r.violation(ID, "scalar_vs_profile", be,
                        "scalar_vs_profile/%s/%s/%s/%s" % (name, sub, be, cls),
                        dict(case, interval=iv), {"profile.avrg": a}, {"distance": d},
                        "scalar measure differs from the average of its profile", rank)
            return
    r.outcomes.add((name, round(a, 9)))


def check_state(r, k, masks, task):
    trains, edges = pairs.trains_edges(k, masks)
    ns = pairs.nspikes(masks)
    iv_all = [None] + intervals(k, task.get("ivm", "all"))
    for ci, (name, kw) in enumerate(task["conf"]):
        ivals = [None] if name == "order" else iv_all
        evaluate(r, trains, edges, name, kw, ivals, task["backend"], (k, ns, ci))
        if len(trains) in SELS and name in ("order", "sync", "isi"):
            for sel in SELS[len(trains)]:
                evaluate(r, trains, edges, name, kw, [None], task["backend"], (k, ns, ci, 1),
                         indices=sel)
    if r.states % 499 == 1:
        r.sample({"trains": trains, "edges": edges, "n_intervals": len(iv_all)})


def run_task(task):
    return pairs.run_states(task, check_state, ID)


def replay(rec):
    r = Result()
    c = rec["case"]
    iv = c.get("interval")
    evaluate(r, c["trains"], c["edges"], c["measure"], c["kwargs"],
             [tuple(iv) if iv else None], rec["backend"], tuple(rec.get("rank", ())),
             indices=c.get("indices"))
    return r
