"""C02 - SPIKE-profile equals the SPIKE-distance definition (plain, RI, adaptive)."""
import numpy as np

from mc import lattice, oracles as O, pairs
from mc.common import TOL, U
from mc.runner import Result
from mc.measures import bivariate_forms

ID = "C02"
LEVEL = "model_checking"

MENU_Q = [(0.0, False), (2 * U, False), (0.0, True), (1.5 * U, True)]
MENU_T = [(m, ri) for ri in (False, True)
          for m in (0.0, 0.5 * U, 1.5 * U, 2 * U, 4 * U, 40 * U)]


def plan(tier):
    if tier == "quick":
        regimes = [("dense", 1, 5), ("bounded", 3, 6, 7), ("near", 2, 3), ("far", 1, 4)]
        menu = MENU_Q
    else:
        regimes = [("dense", 1, 6), ("bounded", 3, 7, 9), ("near", 2, 3), ("far", 1, 5)]
        menu = MENU_T
    desc, total = pairs.describe_regimes(regimes, 2)
    return {
        "tasks": pairs.regime_tasks(2, regimes, ["py", "pyx"], extra={"menu": menu}),
        "bounds": {"regimes": desc, "MRTS_RI_menu": menu, "lattice": {"t0": 0.5, "u": U},
                   "backends": ["py", "pyx-model"]},
        "rule": "breadth-first enumeration of all ordered pairs of spike trains on the "
                "time lattice for every clock in the stated regimes, times the (MRTS, RI) "
                "menu; non-trivial = both trains carry spikes; distinct = behaviour "
                "signatures (event-subset sequence + gap rank pattern)",
        "exhaustive": True,
        "assumptions": [
            "spike times restricted to the dyadic lattice (DESIGN 2.1)",
            "an empty train is represented by auxiliary spikes on both edges "
            "(SpikeTrain.get_spikes_non_empty), as the anchored mechanism states",
            "adaptive non-RI variant: one factor of the squared mean interval is floored "
            "at MRTS (A-SPIKE definition)",
            "pyx configuration = rendered .pyx sources (DESIGN 2.6)",
        ],
        "explanation": "public spike_profile/spike_distance and profile evaluation compared "
                       "with the global reference model (nearest spike in the extended "
                       "other train, linear interpolation, constant edge contribution)",
    }


_HELD = []


def check_held(r, be):
    """a profile returned by an earlier call must still hold the same data"""
    for prof, saved, case in _HELD:
        for k, v in saved.items():
            if not np.array_equal(np.asarray(getattr(prof, k), float), v):
                r.violation(ID, "stale_result", be, "stale_result/%s" % be,
                            dict(case, later_calls="the calls made for the following states"),
                            {k: v for k, v in saved.items()},
                            {k: np.asarray(getattr(prof, k), float) for k in saved},
                            "a profile object returned earlier was modified by later calls")
                break
    del _HELD[:]


def hold(prof, case):
    _HELD.append((prof, {k: np.array(getattr(prof, k), dtype=float) for k in ('x', 'y1', 'y2')}, case))


def evaluate(r, trains, edges, mrts, ri, be, rank=()):
    import pyspike as spk
    ts, te = edges
    st1 = spk.SpikeTrain(trains[0], edges)
    st2 = spk.SpikeTrain(trains[1], edges)
    case = {"trains": trains, "edges": edges, "MRTS": mrts, "RI": ri}
    cls = pairs.classes(trains, ts, te)
    ets, ete, em = O.ex(ts), O.ex(te), O.ex(mrts)
    e1 = O.non_empty(O.exl(trains[0]), ets, ete)
    e2 = O.non_empty(O.exl(trains[1]), ets, ete)
    xe, y1e, y2e = O.spike_profile_exact(e1, e2, ets, ete, em, ri)
    xf = [v / O.SCALE for v in xe]
    r.evaluations += 1
    r.traces += 1
    try:
        p = spk.spike_profile(st1, st2, MRTS=mrts, RI=ri)
        check_held(r, be)       # the profile of the previous call, after this call was made
        hold(p, case)
        x = np.asarray(p.x, dtype=float)
        y1 = np.asarray(p.y1, dtype=float)
        y2 = np.asarray(p.y2, dtype=float)
    except Exception as e:
        r.violation(ID, "spike_profile.exception", be,
                    "spike_profile.exception/%s/%s" % (be, cls), case, "a profile",
                    "%s: %s" % (type(e).__name__, e), "spike_profile raised on valid input", rank)
        return
    if list(x) != xf:
        r.violation(ID, "spike_profile.x", be, "spike_profile.x/%s/%s" % (be, cls), case, xf, x,
                    "breakpoints are not exactly the edges plus the distinct interior spike times",
                    rank)
        return
    f1 = [float(v) for v in y1e]
    f2 = [float(v) for v in y2e]
    ok = len(y1) == len(f1) and len(y2) == len(f2) and \
        all(abs(a - b) <= TOL for a, b in zip(y1, f1)) and \
        all(abs(a - b) <= TOL for a, b in zip(y2, f2))
    if not ok:
        r.violation(ID, "spike_profile.y", be, "spike_profile.y/%s/%s" % (be, cls), case,
                    {"y1": f1, "y2": f2}, {"y1": y1, "y2": y2},
                    "one-sided limits differ from the documented instantaneous dissimilarity",
                    rank)
        return
    r.outcomes.add(tuple(round(v, 9) for v in f1 + f2))
    # the same bivariate profile through the list and `indices` call forms
    try:
        for fname, q in bivariate_forms(spk.spike_profile, st1, st2, edges, MRTS=mrts, RI=ri):
            ok = list(np.asarray(q.x, float)) != xf or len(q.y1) != len(f1) or \
                not all(abs(a - b) <= TOL for a, b in zip(np.asarray(q.y1, float), f1)) or \
                not all(abs(a - b) <= TOL for a, b in zip(np.asarray(q.y2, float), f2))
            if ok:
                r.violation(ID, "spike_profile.form", be, "spike_profile.form/%s/%s" % (be, cls),
                            dict(case, form=fname), {"x": xf, "y1": f1, "y2": f2},
                            {"x": q.x, "y1": q.y1, "y2": q.y2},
                            "the profile of the two trains obtained through call form %s differs "
                            "from the definition" % fname, rank)
                return
    except Exception as e:
        r.violation(ID, "spike_profile.form", be, "spike_profile.form.exception/%s/%s" % (be, cls),
                    case, "a profile", "%s: %s" % (type(e).__name__, e),
                    "a list / indices call form raised", rank)
        return
    # 0 at every instant where both trains spike together (incl. the edges)
    shared = set(trains[0]) & set(trains[1])
    for kx, t in enumerate(x):
        if t in shared:
            vals = []
            if kx < len(y1):
                vals.append(y1[kx])
            if kx > 0:
                vals.append(y2[kx - 1])
            if any(abs(v) > TOL for v in vals):
                r.violation(ID, "spike_profile.shared", be,
                            "spike_profile.shared/%s/%s" % (be, cls), case, 0.0, vals,
                            "profile is not 0 where both trains spike together", rank)
                return
    # RI given as 1 / 0, numpy.bool_ or the result of a numpy comparison means the same as the
    # Python bool
    try:
        for tn, val in (("int", int(ri)), ("numpy.bool_", np.bool_(ri)),
                        ("numpy comparison", np.float64(1.0) > (0.0 if ri else 2.0))):
            q = spk.spike_profile(st1, st2, MRTS=mrts, RI=val)
            dq = float(spk.spike_distance(st1, st2, MRTS=mrts, RI=val))
            if not (all(abs(a - b) <= TOL for a, b in zip(np.asarray(q.y1, float), f1)) and
                    all(abs(a - b) <= TOL for a, b in zip(np.asarray(q.y2, float), f2)) and
                    abs(dq - float(O.pwl_average(xe, y1e, y2e))) <= TOL):
                r.violation(ID, "spike_profile.typed_RI", be,
                            "spike_profile.typed_RI/%s/%s" % (be, cls), dict(case, RI_given_as=tn),
                            {"y1": f1, "y2": f2}, {"y1": q.y1, "y2": q.y2, "distance": dq},
                            "RI given as %s is not treated like the Python bool" % tn, rank)
                return
    except Exception as e:
        r.violation(ID, "spike_profile.typed_RI", be, "spike_profile.typed_RI.exception/%s/%s"
                    % (be, cls), case, "a profile", "%s: %s" % (type(e).__name__, e),
                    "RI given as int / numpy.bool_ raised", rank)
        return
    # evaluation at interior times agrees with the linear interpolation
    try:
        for kx in range(len(x) - 1):
            tm = 0.5 * (x[kx] + x[kx + 1])
            v = float(p(tm))
            ve = 0.5 * (f1[kx] + f2[kx])
            if not abs(v - ve) <= TOL:
                r.violation(ID, "spike_profile.call", be,
                            "spike_profile.call/%s/%s" % (be, cls), dict(case, t=tm), ve, v,
                            "profile(t) differs from the definition at an interior time", rank)
                return
    except Exception as e:
        r.violation(ID, "spike_profile.call", be, "spike_profile.call.exception/%s/%s" % (be, cls),
                    case, "a value", "%s: %s" % (type(e).__name__, e),
                    "profile(t) raised", rank)
        return
    try:
        d = float(spk.spike_distance(st1, st2, MRTS=mrts, RI=ri))
    except Exception as e:
        r.violation(ID, "spike_distance.exception", be,
                    "spike_distance.exception/%s/%s" % (be, cls), case, "a number",
                    "%s: %s" % (type(e).__name__, e), "spike_distance raised on valid input", rank)
        return
    de = float(O.pwl_average(xe, y1e, y2e))
    if not abs(d - de) <= TOL:
        r.violation(ID, "spike_distance.value", be, "spike_distance.value/%s/%s" % (be, cls),
                    case, de, d, "distance differs from the time average of the defined profile",
                    rank)


def check_state(r, k, masks, task):
    trains, edges = pairs.trains_edges(k, masks)
    ns = pairs.nspikes(masks)
    for mi, (m, ri) in enumerate(task["menu"]):
        evaluate(r, trains, edges, m, ri, task["backend"], (k, ns, mi))
    if r.states % 997 == 1:
        r.sample({"trains": trains, "edges": edges, "menu": task["menu"]})


def run_task(task):
    return pairs.run_states(task, check_state, ID)


def replay(rec):
    r = Result()
    c = rec["case"]
    evaluate(r, c["trains"], c["edges"], c["MRTS"], c["RI"], rec["backend"],
             tuple(rec.get("rank", ())))
    return r
