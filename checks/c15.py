"""C15 - MRTS only de-emphasises small time scales; 'auto' is the pooled ISI threshold."""
from fractions import Fraction
import math

import numpy as np

from mc import lattice, pairs, oracles as O
from mc.common import TOL, U, T0
from mc.measures import observe, _lst
from mc.runner import Result

ID = "C15"
LEVEL = "model_checking"

MRTS_Q = [0.0, 0.5 * U, U, 2 * U, 3 * U, 6 * U, 12 * U, 40 * U]
MRTS_T = [0.0, 0.5 * U, U, 1.5 * U, 2 * U, 3 * U, 4 * U, 6 * U, 8 * U, 12 * U, 16 * U, 40 * U]
BASE = [("isi", {}), ("spike", {}), ("spike", {"RI": True}), ("sync", {}), ("sync", {"max_tau": 2 * U}),
        ("order", {})]


def plan(tier):
    if tier == "quick":
        specs = [(2, [("dense", 1, 5)], MRTS_Q), (3, [("dense", 1, 3)], MRTS_Q[::2]),
                 (2, [("bounded", 3, 6, 7)], [0.0] + MRTS_Q[4:])]
    else:
        specs = [(2, [("dense", 1, 6)], MRTS_T), (2, [("bounded", 3, 7, 9)], [0.0] + MRTS_T[6:]),
                 (3, [("dense", 1, 4)], MRTS_Q[::2])]
    tasks, descs = [], []
    mixed_ks = (8,) if tier == "quick" else (8, 10, 11)
    for be in ("py", "pyx"):
        for sh in range(32):
            tasks.append({"backend": be, "mode": "mixed", "ks": list(mixed_ks), "shard": sh,
                          "nshards": 32, "menu": [0.0]})
    descs.append({"regime": "mixed-rate triples", "clocks": list(mixed_ks),
                  "states": pairs.mixed_rate_count(mixed_ks),
                  "what": "two trains with <=2 spikes x a third train in {empty, every tick, every "
                          "second tick}: the pair-wise and the pooled automatic thresholds differ "
                          "enough to change coincidences; only the 'auto' relations are checked"})
    for N, regimes, menu in specs:
        tasks += pairs.regime_tasks(N, regimes, ["py", "pyx"], extra={"menu": menu}, nshards=48)
        d, _ = pairs.describe_regimes(regimes, N)
        for x in d:
            x["MRTS_menu_ascending"] = menu
            x["measures"] = BASE
        descs += d
    return {
        "tasks": tasks,
        "bounds": {"regimes": descs, "lattice": {"t0": T0, "u": U},
                   "backends": ["py", "pyx-model"]},
        "rule": "breadth-first enumeration of all ordered pairs and triples of lattice spike trains, "
                "times six measure configurations, times the ascending MRTS menu (all ordered pairs "
                "MRTS1 <= MRTS2 are covered by transitivity of the element-wise order along the "
                "chain), plus MRTS omitted and MRTS='auto' in bivariate, list, indices and matrix "
                "forms; non-trivial = at least two trains carry spikes",
        "exhaustive": True,
        "assumptions": ["spike times on the dyadic lattice",
                        "pooled ISI lengths: no zero-length interval is counted for a spike that "
                        "sits on an edge (the ISI-profile has no such interval either)",
                        "with a strict subset selected through `indices`, 'auto' is the threshold "
                        "of the whole reconciled list (the library's plumbing, see DESIGN C14)",
                        "pyx configuration = rendered .pyx sources"],
        "explanation": "MRTS=0 == omitted (bit-identical); breakpoints independent of MRTS; ISI/"
                       "SPIKE profile arrays non-increasing and coincidence marks non-decreasing "
                       "along the MRTS chain; MRTS below every pooled ISI changes nothing; 'auto' "
                       "== explicit default_thresh of the trains passed; default_thresh^2 == exact "
                       "mean of squared pooled ISI lengths (rational model)",
    }


def _arrs(o):
    return [k for k in ("y", "y1", "y2", "mp") if k in o]


def thresh_model(trains, edges):
    ts, te = O.ex(edges[0]), O.ex(edges[1])
    pool = O.isi_lengths_pool([O.exl(t) for t in trains], ts, te)
    ms = Fraction(sum(p * p for p in pool), len(pool))
    return math.sqrt(float(ms)) / O.SCALE, min(pool) / float(O.SCALE)


def evaluate(r, trains, edges, menu, be, rank=(), auto_only=False, coinc_only=False, raw=None):
    import pyspike as spk
    from pyspike.isi_lengths import default_thresh
    sts = [spk.SpikeTrain(t, edges) for t in trains]
    if raw is not None:
        # the library gets the trains in a messy form (unsorted, repeated spike times); 'auto'
        # must still be the threshold of the *reconciled* trains, i.e. of `trains`
        rsts = [spk.SpikeTrain(t, edges, is_sorted=True) for t in raw]
        th_e, _ = thresh_model(trains, edges)
        for fname, f in (
                ("spike_sync(list)", lambda s_, m: float(spk.spike_sync(s_, MRTS=m))),
                ("spike_train_order(list)", lambda s_, m: float(spk.spike_train_order(s_, MRTS=m))),
                ("spike_sync_profile(list)", lambda s_, m: _lst(spk.spike_sync_profile(s_, MRTS=m).y)),
                ("spike_train_order(a,b)",
                 lambda s_, m: float(spk.spike_train_order(s_[0], s_[1], MRTS=m))),
                ("spike_directionality_matrix",
                 lambda s_, m: _lst(spk.spike_directionality_matrix(s_, MRTS=m))),
                ("isi_distance(list)", lambda s_, m: float(spk.isi_distance(s_, MRTS=m)))):
            r.evaluations += 1
            try:
                a = f(rsts, "auto")
                if fname == "spike_train_order(a,b)":
                    b = f(sts, float(thresh_model(trains[:2], edges)[0]))
                else:
                    b = f(sts, th_e)
            except Exception as e:
                r.violation(ID, "auto.messy.exception", be, "auto.messy.exception/%s/%s" % (fname, be),
                            {"raw": raw, "edges": edges, "form": fname}, "results",
                            "%s: %s" % (type(e).__name__, e), "measure raised", rank)
                continue
            from mc.measures import obs_close
            if not obs_close(a, b, TOL):
                r.violation(ID, "auto.messy", be, "auto.messy/%s/%s" % (fname, be),
                            {"raw": raw, "trains": trains, "edges": edges, "form": fname,
                             "threshold_of_reconciled_trains": th_e}, b, a,
                            "MRTS='auto' on unsorted / repeated spike times is not the pooled "
                            "threshold of the reconciled trains", rank)
        return
    n = len(trains)
    cls = "N%d/%s" % (n, pairs.classes(trains, edges[0], edges[1]) if n == 2 else "")
    case = {"trains": trains, "edges": edges}

    def viol(sub, extra, exp, obs, msg):
        r.violation(ID, sub, be, "%s/%s/%s" % (sub, be, cls), dict(case, **extra), exp, obs, msg,
                    rank)

    # ---- the automatic threshold itself
    r.evaluations += 1
    r.traces += 1
    te_, minisi = thresh_model(trains, edges)
    try:
        th = float(default_thresh(sts))
    except Exception as e:
        viol("default_thresh.exception", {}, te_, "%s: %s" % (type(e).__name__, e),
             "default_thresh raised")
        return
    if abs(th - te_) > TOL:
        viol("default_thresh", {}, te_, th, "automatic threshold is not the root mean square of "
             "the pooled inter-spike-interval lengths")
        return
    for name, kw in (BASE if not (auto_only or coinc_only) else
                     [b for b in BASE if b[0] in ("sync", "order")]):
        try:
            chain = []
            om = observe(name, sts, kw)           # MRTS omitted
            for m in menu:
                chain.append(observe(name, sts, dict(kw, MRTS=m)))
            oa = observe(name, sts, dict(kw, MRTS="auto"))
            oe = observe(name, sts, dict(kw, MRTS=th))
        except Exception as e:
            viol("exception", {"measure": name, "kwargs": kw}, "results",
                 "%s: %s" % (type(e).__name__, e), "measure raised")
            continue
        r.evaluations += len(menu) + 3
        arrs = _arrs(om)
        c0 = {"measure": name, "kwargs": kw}
        # MRTS=0 is the non-adaptive measure, exactly
        z = chain[0]
        if not (all(np.array_equal(om[k], z[k]) for k in ["x"] + arrs) and
                (om["v"] == z["v"] or (om["v"] != om["v"] and z["v"] != z["v"]))):
            viol("zero_vs_omitted", c0, {k: om[k] for k in arrs + ["v"]},
                 {k: z[k] for k in arrs + ["v"]}, "MRTS=0 differs from the keyword omitted")
            continue
        bad = False
        for m, o in zip(menu, chain):
            if not np.array_equal(o["x"], z["x"]):
                viol("breakpoints", dict(c0, MRTS=m), z["x"], o["x"],
                     "breakpoints / event times depend on MRTS")
                bad = True
                break
            if 0 < m < minisi and not (all(np.array_equal(o[k], z[k]) for k in arrs) and
                                       abs(o["v"] - z["v"]) <= 1e-15):
                viol("below_every_isi", dict(c0, MRTS=m, smallest_pooled_isi=minisi),
                     {k: z[k] for k in arrs + ["v"]}, {k: o[k] for k in arrs + ["v"]},
                     "an MRTS below every inter-spike interval changes the result")
                bad = True
                break
        if bad:
            continue
        for (m1, o1), (m2, o2) in zip(zip(menu[:-1], chain[:-1]), zip(menu[1:], chain[1:])):
            if name in ("isi", "spike"):
                ok = all(np.all(o2[k] <= o1[k] + TOL) for k in arrs) and o2["v"] <= o1["v"] + TOL
                msg = "raising MRTS increased a profile value"
            elif name == "sync":
                ok = np.all(o2["y"] >= o1["y"]) and np.array_equal(o2["mp"], o1["mp"]) and \
                    o2["v"] >= o1["v"] - TOL
                msg = "raising MRTS removed a SPIKE-Sync coincidence"
            elif n == 2:
                ok = np.all(np.abs(o2["y"]) >= np.abs(o1["y"])) and np.array_equal(o2["mp"], o1["mp"])
                msg = "raising MRTS removed an order-profile coincidence"
            else:
                # multivariate order profile: +1 and -1 of different pairs may cancel, so
                # |y| need not grow with the coincidence set; only the multiplicities are fixed
                ok = np.array_equal(o2["mp"], o1["mp"])
                msg = "raising MRTS changed the multiplicities of the order profile"
            if not ok:
                viol("monotone", dict(c0, MRTS1=m1, MRTS2=m2), {k: o1[k] for k in arrs + ["v"]},
                     {k: o2[k] for k in arrs + ["v"]}, msg)
                bad = True
                break
        if bad:
            continue
        # 'auto' == explicit threshold of the trains passed
        if not (all(np.all(np.abs(oa[k] - oe[k]) <= TOL) for k in arrs) and
                np.array_equal(oa["x"], oe["x"]) and abs(oa["v"] - oe["v"]) <= TOL):
            viol("auto", dict(c0, threshold=th), {k: oe[k] for k in arrs + ["v"]},
                 {k: oa[k] for k in arrs + ["v"]},
                 "MRTS='auto' differs from passing default_thresh explicitly")
            continue
        r.outcomes.add((name, round(om["v"], 9), round(oa["v"], 9)))
    # ---- MRTS given as an integer number (Python int, numpy integer, float32) means that
    # number: 0 is the non-adaptive measure, 1 and 2 (= 4u, 8u) equal 1.0 and 2.0
    if not auto_only and not coinc_only and (edges[1] - edges[0]) <= 3 * U + 1e-9:  # small clocks
        from mc.measures import obs_close
        tforms = [
            ("isi_profile", lambda m: _lst(spk.isi_profile(*targs, MRTS=m).y)),
            ("spike_distance", lambda m: float(spk.spike_distance(*targs, MRTS=m, RI=True))),
            ("spike_sync_profile", lambda m: _lst(spk.spike_sync_profile(*targs, MRTS=m).y)),
            ("isi_distance_matrix", lambda m: _lst(spk.isi_distance_matrix(sts, MRTS=m))),
            ("spike_distance_matrix", lambda m: _lst(spk.spike_distance_matrix(sts, MRTS=m))),
            ("spike_sync_matrix", lambda m: _lst(spk.spike_sync_matrix(sts, MRTS=m))),
            ("spike_train_order", lambda m: float(spk.spike_train_order(*targs, MRTS=m))),
        ]
        targs = sts if n == 2 else [sts]
        for val in (0, 1, 2):
            for fname, f in tforms:
                try:
                    ref = f(float(val))
                    got = [(tn, f(conv(val))) for tn, conv in
                           (("int", int), ("numpy.int64", np.int64), ("numpy.float32", np.float32))]
                except Exception as e:
                    viol("typed.exception", {"form": fname, "MRTS": val}, "results",
                         "%s: %s" % (type(e).__name__, e), "an integer-typed MRTS raised")
                    break
                r.evaluations += 3
                bad = [tn for tn, g in got if not obs_close(g, ref, TOL)]
                if bad:
                    viol("typed", {"form": fname, "MRTS": val, "type": bad[0]}, ref,
                         dict(got)[bad[0]], "MRTS given as %s differs from the same number given "
                         "as float" % bad[0])
                    break
    # ---- 'auto' through list / indices / matrix forms
    if n >= 3:
        forms = [
            ("isi_distance_matrix", lambda m: _lst(spk.isi_distance_matrix(sts, MRTS=m))),
            ("spike_distance_matrix", lambda m: _lst(spk.spike_distance_matrix(sts, MRTS=m, RI=True))),
            ("spike_sync_matrix", lambda m: _lst(spk.spike_sync_matrix(sts, MRTS=m))),
            ("spike_directionality_matrix",
             lambda m: _lst(spk.spike_directionality_matrix(sts, MRTS=m))),
            ("spike_directionality_values",
             lambda m: [_lst(a) for a in spk.spike_directionality_values(sts, MRTS=m)]),
            ("isi_distance[indices]", lambda m: float(spk.isi_distance(sts, indices=[2, 0], MRTS=m))),
            ("spike_profile[indices]",
             lambda m: _lst(spk.spike_profile(sts, indices=[1, 2], MRTS=m).y1)),
            ("spike_sync[indices]", lambda m: float(spk.spike_sync(sts, indices=[2, 1], MRTS=m))),
            ("spike_train_order(list)", lambda m: float(spk.spike_train_order(sts, MRTS=m))),
            ("filter_by_spike_sync",
             lambda m: [t.spikes.tolist() for t in spk.filter_by_spike_sync(sts, 0.4, MRTS=m)]),
        ]
        from mc.measures import obs_close
        for fname, f in forms:
            r.evaluations += 1
            try:
                a, b = f("auto"), f(th)
            except Exception as e:
                viol("auto.forms.exception", {"form": fname}, "results",
                     "%s: %s" % (type(e).__name__, e), "a list form raised with MRTS='auto'")
                continue
            if not obs_close(a, b, TOL):
                viol("auto.forms", {"form": fname, "threshold": th}, b, a,
                     "MRTS='auto' in a list / indices / matrix form differs from the explicit "
                     "pooled threshold of the list")


def check_state(r, k, masks, task):
    trains, edges = pairs.trains_edges(k, masks)
    ns = pairs.nspikes(masks)
    evaluate(r, trains, edges, task["menu"], task["backend"], (k, ns),
             coinc_only=(task["regime"][0] == "bounded"))
    if r.states % 997 == 1:
        r.sample({"trains": trains, "edges": edges, "MRTS_menu": task["menu"]})


def run_task(task):
    if task.get("mode") == "mixed":
        def mixed(r, k, masks, task):
            trains, edges = pairs.trains_edges(k, masks)
            evaluate(r, trains, edges, [0.0], task["backend"], (k, pairs.nspikes(masks)),
                     auto_only=True)
            raw = []
            for t in trains:
                x = list(reversed(t))
                raw.append(([x[-1]] + x + [x[0]]) if x else x)
            evaluate(r, trains, edges, [0.0], task["backend"], (k, pairs.nspikes(masks), 1),
                     raw=raw)
        return pairs.run_states(task, mixed, ID, states=pairs.mixed_rate_triples(
            tuple(task["ks"]), 2, task["shard"], task["nshards"]))
    return pairs.run_states(task, check_state, ID)


def replay(rec):
    r = Result()
    c = rec["case"]
    menu = MRTS_T
    if "raw" in c:
        trains = c.get("trains") or [sorted(set(t)) for t in c["raw"]]
        evaluate(r, trains, c["edges"], [0.0], rec["backend"], tuple(rec.get("rank", ())),
                 raw=c["raw"])
        return r
    evaluate(r, c["trains"], c["edges"], menu, rec["backend"], tuple(rec.get("rank", ())))
    return r
