"""C07 - measures respect range, symmetry and identity axioms."""
import numpy as np

from mc import lattice, pairs
from mc.measures import observe
from mc.common import TOL, U, T0
from mc.runner import Result

ID = "C07"
LEVEL = "model_checking"

CONF_Q = [("isi", {}), ("isi", {"MRTS": 2 * U}), ("spike", {}), ("spike", {"RI": True}),
          ("spike", {"MRTS": 1.5 * U}), ("spike", {"MRTS": 2 * U, "RI": True}),
          ("sync", {}), ("sync", {"max_tau": U}), ("sync", {"MRTS": 6 * U}),
          ("order", {}), ("order", {"max_tau": U, "MRTS": 6 * U}), ("isi", {"MRTS": "auto"}),
          ("spike", {"MRTS": "auto", "RI": True}), ("sync", {"MRTS": "auto"})]
CONF_T = CONF_Q + [("isi", {"MRTS": 0.5 * U}), ("isi", {"MRTS": 40 * U}), ("spike", {"MRTS": 40 * U}),
                   ("spike", {"MRTS": 0.5 * U, "RI": True}), ("sync", {"max_tau": 0.5 * U, "MRTS": 8 * U}),
                   ("sync", {"MRTS": 12 * U}), ("order", {"MRTS": 12 * U}), ("order", {"max_tau": 2 * U}),
                   ("spike", {"MRTS": "auto"}), ("order", {"MRTS": "auto"})]
EPS = 1e-12


def some_intervals(k):
    pts = [T0 + j * U / 2 for j in range(2 * k + 1)]
    n = len(pts) - 1
    idx = {(0, 1), (0, n // 2), (1, n - 1), (n // 2, n), (n - 1, n), (1, n)}
    out = sorted((pts[i], pts[j]) for i, j in idx if i < j)
    if n >= 4:
        # a sequence of two intervals of unequal length
        out.append(((pts[0], pts[1]), (pts[n // 2], pts[n])))
    return out


def plan(tier):
    if tier == "quick":
        # bounded regime: three spikes per train and clock >= 7 are needed for an interior
        # pair further apart than max_tau but inside the adaptive window
        specs = [([("dense", 1, 5)], CONF_Q),
                 ([("bounded", 3, 6, 8)], [CONF_Q[0], CONF_Q[2], CONF_Q[5], CONF_Q[6], CONF_Q[7],
                                           CONF_Q[10]])]
    else:
        specs = [([("dense", 1, 6)], CONF_T), ([("dense", 7, 7)], CONF_Q[::2]),
                 ([("bounded", 3, 8, 10)], [CONF_Q[0], CONF_Q[2], CONF_Q[5], CONF_Q[6], CONF_Q[7],
                                            CONF_Q[10]])]
    tasks, descs = [], []
    for regimes, conf in specs:
        tasks += pairs.regime_tasks(2, regimes, ["py", "pyx"], extra={"conf": conf})
        d, _ = pairs.describe_regimes(regimes, 2)
        for x in d:
            x["measure_configurations"] = conf
        descs += d
    return {
        "tasks": tasks,
        "bounds": {"regimes": descs, "lattice": {"t0": T0, "u": U},
                   "sub_intervals": "whole recording and 6 half-lattice sub-intervals per state",
                   "backends": ["py", "pyx-model"]},
        "rule": "breadth-first enumeration of all ordered pairs of lattice spike trains (the pairs "
                "(m, m) of equal trains are states of the enumeration and drive the identity "
                "axioms, with an equal copy and with the same object), times the measure "
                "configurations and sub-intervals; non-trivial = both trains carry spikes",
        "exhaustive": True,
        "assumptions": ["spike times restricted to the dyadic lattice",
                        "pyx configuration = rendered .pyx sources"],
        "explanation": "oracle-free axioms from the statement: finite values, ranges, argument "
                       "swap symmetry of ISI/SPIKE/SPIKE-Sync, identity 0/0/1 and un-normalised "
                       "self-directionality 0",
    }


def _v(r, sub, be, name, cls, case, exp, obs, msg, rank):
    r.violation(ID, sub, be, "%s/%s/%s/%s" % (sub, name, be, cls), case, exp, obs, msg, rank)


def evaluate(r, trains, edges, name, kw, ivals, be, rank=()):
    import pyspike as spk
    ts, te = edges
    st1 = spk.SpikeTrain(trains[0], edges)
    st2 = spk.SpikeTrain(trains[1], edges)
    cls = pairs.classes(trains, ts, te)
    case = {"trains": trains, "edges": edges, "measure": name, "kwargs": kw}
    r.evaluations += 1
    try:
        o = observe(name, [st1, st2], kw)
        s = observe(name, [st2, st1], kw)
    except Exception as e:
        _v(r, "exception", be, name, cls, case, "results", "%s: %s" % (type(e).__name__, e),
           "a bivariate measure raised on valid input", rank)
        return
    arrs = [k for k in ("y", "y1", "y2", "mp") if k in o]
    # ---- finite + range
    for k in arrs:
        if not np.all(np.isfinite(o[k])):
            _v(r, "finite", be, name, cls, case, "finite", o[k], "profile array %s not finite" % k, rank)
            return
    if not np.isfinite(o["v"]):
        _v(r, "finite", be, name, cls, case, "finite", o["v"], "scalar result not finite", rank)
        return
    if name in ("isi", "spike"):
        for k in arrs:
            if np.any(o[k] < -EPS) or np.any(o[k] > 1 + EPS):
                _v(r, "range", be, name, cls, case, "[0,1]", o[k],
                   "profile value outside [0,1]", rank)
                return
        lo, hi = 0.0, 1.0
    elif name == "sync":
        if np.any(o["y"] < 0) or np.any(o["y"] > o["mp"]):
            _v(r, "range", be, name, cls, case, "0 <= y <= mp", {"y": o["y"], "mp": o["mp"]},
               "SPIKE-Sync profile entry not between 0 and its multiplicity", rank)
            return
        lo, hi = 0.0, 1.0
    else:
        if np.any(np.abs(o["y"]) > o["mp"]):
            _v(r, "range", be, name, cls, case, "|y| <= mp", {"y": o["y"], "mp": o["mp"]},
               "order profile entry exceeds its multiplicity", rank)
            return
        lo, hi = -1.0, 1.0
    if not (lo - EPS <= o["v"] <= hi + EPS):
        _v(r, "range", be, name, cls, case, [lo, hi], o["v"], "scalar outside its range", rank)
        return
    if name != "order":
        for iv in ivals:
            try:
                ivl = [list(x) for x in iv] if isinstance(iv[0], tuple) else list(iv)
                a = float(o["profile"].avrg(ivl))
                kw2 = dict(kw)
                d = float({"isi": spk.isi_distance, "spike": spk.spike_distance,
                           "sync": spk.spike_sync}[name](st1, st2, interval=ivl, **kw2))
            except Exception as e:
                _v(r, "exception", be, name, cls, dict(case, interval=iv), "a number",
                   "%s: %s" % (type(e).__name__, e), "sub-interval averaging raised", rank)
                return
            if not (np.isfinite(d) and lo - EPS <= d <= hi + EPS and
                    np.isfinite(a) and lo - EPS <= a <= hi + EPS):
                _v(r, "range.interval", be, name, cls, dict(case, interval=iv), [lo, hi], d,
                   "sub-interval result outside its range", rank)
                return
    # ---- symmetry under argument swap
    if name in ("isi", "spike", "sync"):
        ok = all(o[k].shape == s[k].shape and np.all(np.abs(o[k] - s[k]) <= TOL)
                 for k in ["x"] + arrs) and abs(o["v"] - s["v"]) <= TOL
        if not ok:
            _v(r, "symmetry", be, name, cls, case, {k: o[k] for k in arrs + ["v"]},
               {k: s[k] for k in arrs + ["v"]},
               "result changes when the two arguments are swapped", rank)
            return
    else:
        try:
            dn = float(spk.spike_directionality(st1, st2, **kw))
            dn2 = float(spk.spike_directionality(st2, st1, **kw))
        except Exception as e:
            _v(r, "exception", be, "directionality", cls, case, "a number",
               "%s: %s" % (type(e).__name__, e), "spike_directionality raised", rank)
            return
        for v in (dn, dn2):
            if not (np.isfinite(v) and -1 - EPS <= v <= 1 + EPS):
                _v(r, "range", be, "directionality", cls, case, [-1, 1], v,
                   "normalised directionality outside [-1,1] or not finite", rank)
                return
    # ---- identity
    if trains[0] == trains[1]:
        try:
            same = observe(name, [st1, st1], kw)
            vals = [o["v"], same["v"]]
            if name == "order":
                du = [float(spk.spike_directionality(st1, st2, normalize=False, **kw)),
                      float(spk.spike_directionality(st1, st1, normalize=False, **kw))]
        except Exception as e:
            _v(r, "exception", be, name, cls, case, "a number", "%s: %s" % (type(e).__name__, e),
               "measure of a train with itself raised", rank)
            return
        if name in ("isi", "spike"):
            bad = any(abs(v) > TOL for v in vals) or any(np.any(np.abs(o[k]) > TOL) for k in arrs)
            exp = 0.0
        elif name == "sync":
            bad = any(abs(v - 1.0) > TOL for v in vals)
            exp = 1.0
        else:
            bad = any(v != 0.0 for v in du)
            vals = du
            exp = 0.0
        if bad:
            _v(r, "identity", be, name, cls, case, exp, vals,
               "a train compared with itself / an equal copy does not give the identity value",
               rank)
            return
    r.outcomes.add((name, round(o["v"], 9)))


def check_state(r, k, masks, task):
    trains, edges = pairs.trains_edges(k, masks)
    ns = pairs.nspikes(masks)
    ivals = some_intervals(k)
    for ci, (name, kw) in enumerate(task["conf"]):
        evaluate(r, trains, edges, name, kw, ivals, task["backend"], (k, ns, ci))
    if r.states % 997 == 1:
        r.sample({"trains": trains, "edges": edges})


def run_task(task):
    return pairs.run_states(task, check_state, ID)


def replay(rec):
    r = Result()
    c = rec["case"]
    iv = c.get("interval")
    k = int(round((c["edges"][1] - c["edges"][0]) / U))
    ivals = [tuple(iv)] if iv else some_intervals(k)
    evaluate(r, c["trains"], c["edges"], c["measure"], c["kwargs"], ivals, rec["backend"],
             tuple(rec.get("rank", ())))
    return r
