"""C09 - adding piecewise profiles is pointwise addition on the merged support."""
import numpy as np

from mc import history as H
from mc.common import TOL, U, T0
from mc.runner import Result

ID = "C09"
LEVEL = "model_checking"
SCALARS = [-1.0, 0.5, 2.0, 0.0]


def menu_for(kind, L):
    return H.pwc_menu(L) if kind == "pwc" else H.pwl_menu(L)


def plan(tier):
    if tier == "quick":
        specs = [("pwc", 4, 3), ("pwl", 4, 3), ("pwc", 5, 2), ("pwl", 5, 2), ("pwc", 6, 1), ("pwl", 6, 1)]
    else:
        specs = [("pwc", 4, 3), ("pwl", 4, 3), ("pwc", 5, 3), ("pwl", 5, 3), ("pwc", 6, 2),
                 ("pwl", 6, 2)]
    tasks = []
    desc = []
    for kind, L, depth in specs:
        names = [n for n, _, _ in menu_for(kind, L)]
        nsh = min(len(names), 16 if depth < 3 else 48)
        for be in ("py", "pyx"):
            for s in range(nsh):
                tasks.append({"backend": be, "kind": kind, "L": L, "depth": depth,
                              "shard": s, "nshards": nsh})
        desc.append({"class": kind, "support_cells": L, "operand_menu": len(names),
                     "history_depth": depth, "scalars": SCALARS,
                     "value_patterns": H.PWC_PATTERNS if kind == "pwc" else H.PWL_PATTERNS})
    return {
        "tasks": tasks,
        "bounds": {"explorations": desc, "backends": ["py", "pyx-model (cython_add)"]},
        "rule": "breadth-first search over operation histories add(g)/mul_scalar(c)/copy() on live "
                "PieceWiseConstFunc / PieceWiseLinFunc objects, starting from every function of "
                "the operand menu (all breakpoint subsets of the interior lattice points x value "
                "patterns incl. Python-int values); states are deduplicated by the exact model "
                "state; distinct = distinct model states reached",
        "exhaustive": True,
        "assumptions": ["breakpoints on the lattice, dyadic values (all sums exact)",
                        "pyx configuration = rendered cython_add.pyx"],
        "explanation": "every state: breakpoints = strictly increasing union with unchanged end "
                       "points, piece values / one-sided limits and the integral equal the exact "
                       "grid model; every transition: operand byte-identical, copies independent; "
                       "merging histories must have produced the same object (order independence); "
                       "average_profile over all pairs and some triples",
    }


def state_check(kind, obj, model):
    """returns None or (sub, expected, observed, message)"""
    c = H.canon(kind, obj)
    x, ys = model.expected()
    if list(c[0]) != x:
        return ("breakpoints", x, c[0],
                "breakpoints are not the strictly increasing union of the operands' "
                "breakpoints with unchanged end points")
    for got, exp in zip(c[1:], ys):
        if len(got) != len(exp) or any(abs(a - b) > TOL for a, b in zip(got, exp)):
            return ("values", ys, c[1:], "piece values / one-sided limits differ from the "
                    "pointwise linear combination")
    try:
        I = float(obj.integral())
    except Exception as e:
        return ("integral.exception", "a number", "%s: %s" % (type(e).__name__, e),
                "integral() raised")
    Ie = float(model.integral())
    if abs(I - Ie) > TOL:
        return ("integral", Ie, I, "integral is not the combination of the operands' integrals")
    return None


def run_task(task):
    from mc import backend
    r = Result()
    kind, L, depth = task["kind"], task["L"], task["depth"]
    be = task["backend"]
    menu = menu_for(kind, L)
    names = [n for n, _, _ in menu]
    inits = [n for i, n in enumerate(names) if i % task["nshards"] == task["shard"]]
    by_name = {n: (a, m) for n, a, m in menu}

    def viol(sub, hist, exp, obs, msg):
        cls = "int" if any(":int" in str(h) or (isinstance(h, (list, tuple)) and ":int" in str(h[1]))
                           for h in hist) else "float"
        r.violation(ID, sub, be, "%s/%s/%s/%s" % (sub, kind, be, cls),
                    {"kind": kind, "L": L, "history": hist}, exp, obs, msg,
                    (len(hist), len(str(hist))))

    def on_state(obj, model, hist):
        r.evaluations += 1
        r.traces += 1
        r.sigs.add(hash(model.key()) & 0xffffffffffff)
        bad = state_check(kind, obj, model)
        if bad:
            viol(bad[0], hist, bad[1], bad[2], bad[3])
        if r.states % 199 == 1:
            r.sample({"kind": kind, "history": hist, "state": H.canon(kind, obj)})

    add_names = names
    # deeper levels: restrict the added operands to keep the frontier finite
    H.explore(kind, menu, inits, add_names, SCALARS, depth, r, on_state, viol)
    # commutativity across init functions + average_profile
    import pyspike as spk
    from pyspike.DiscreteFunc import average_profile
    for a in inits:
        for b in names:
            r.transitions += 1
            try:
                fa, ma = H.replay_history(kind, by_name, [a, ("add", b)])
                fb, mb = H.replay_history(kind, by_name, [b, ("add", a)])
                if not H._canon_close(H.canon(kind, fa), H.canon(kind, fb), kind):
                    viol("commutativity", [a, ("add", b)], H.canon(kind, fb), H.canon(kind, fa),
                         "f.add(g) and g.add(f) differ")
                pa = H.build(kind, by_name[a][0])
                pb = H.build(kind, by_name[b][0])
                sa, sb = H.snapshot(kind, pa), H.snapshot(kind, pb)
                avg = average_profile([pa, pb])
                if H.snapshot(kind, pa) != sa or H.snapshot(kind, pb) != sb:
                    viol("average_profile.modifies", [a, ("avg", b)], "inputs unchanged", "changed",
                         "average_profile modified one of its inputs")
                bad = state_check(kind, avg, ma.mul(0.5))
                if bad:
                    viol("average_profile." + bad[0], [a, ("avg", b)], bad[1], bad[2], bad[3])
            except Exception as e:
                viol("exception", [a, ("add/avg", b)], "succeeds", "%s: %s" % (type(e).__name__, e),
                     "add / average_profile raised")
    return r


def replay(rec):
    """re-run the recorded history step by step with all per-state checks"""
    r = Result()
    c = rec["case"]
    kind, L = c["kind"], c["L"]
    be = rec["backend"]
    menu = menu_for(kind, L)
    by_name = {n: (a, m) for n, a, m in menu}
    hist = [tuple(h) if isinstance(h, list) else h for h in c["history"]]
    sub = rec["check"]

    def viol(s, exp, obs, msg):
        r.violation(ID, s, be, rec["signature"], c, exp, obs, msg)

    try:
        if sub in ("commutativity",) or sub.startswith("average_profile") or \
                (len(hist) == 2 and hist[1][0] in ("avg", "add/avg")):
            a, b = hist[0], hist[1][1]
            fa, ma = H.replay_history(kind, by_name, [a, ("add", b)])
            fb, mb = H.replay_history(kind, by_name, [b, ("add", a)])
            if not H._canon_close(H.canon(kind, fa), H.canon(kind, fb), kind):
                viol("commutativity", H.canon(kind, fb), H.canon(kind, fa), "f.add(g) != g.add(f)")
            from pyspike.DiscreteFunc import average_profile
            avg = average_profile([H.build(kind, by_name[a][0]), H.build(kind, by_name[b][0])])
            bad = state_check(kind, avg, ma.mul(0.5))
            if bad:
                viol("average_profile." + bad[0], bad[1], bad[2], bad[3])
            return r
        # generic: replay every prefix
        rr = Result()
        seen_viol = []

        def v2(s, h, exp, obs, msg):
            seen_viol.append((s, exp, obs, msg))

        H.explore(kind, menu, [hist[0]], [n for n, _, _ in menu], SCALARS, 0, rr,
                  lambda o, m, h: None, v2)
        for i in range(1, len(hist) + 1):
            obj, model = H.replay_history(kind, by_name, hist[:i])
            bad = state_check(kind, obj, model)
            if bad:
                viol(bad[0], bad[1], bad[2], bad[3])
                return r
        if sub == "order_dependence":
            # the message names the first history; replay both
            pass
    except Exception as e:
        viol("exception", "succeeds", "%s: %s" % (type(e).__name__, e), "operation raised")
    return r
