"""C09 - adding piecewise profiles is pointwise addition on the merged support."""
import numpy as np

from mc import history as H
from mc.common import TOL, U, T0
from mc.runner import Result

ID = "C09"
LEVEL = "model_checking"
SCALARS = [-1.0, 0.5, 2.0, 0.0]


def grid_of(spec):
    return H.grid_of(spec)


def menu_for(kind, spec):
    G = grid_of(spec)
    if kind == "pwc":
        return H.pwc_menu(G)
    # the non-dyadic value pattern only where it adds something: far from the origin
    return H.pwl_menu(G, H.PWL_PATTERNS if spec[0] == "far" else H.PWL_PATTERNS[:3])


def plan(tier):
    if tier == "quick":
        specs = [("pwc", ("reg", 4), 3), ("pwl", ("reg", 4), 3), ("pwc", ("reg", 5), 2),
                 ("pwl", ("reg", 5), 2), ("pwc", ("reg", 6), 1), ("pwl", ("reg", 6), 1),
                 ("pwc", ("near", 3), 2), ("pwl", ("near", 3), 2),
                 ("pwc", ("far", 4), 1), ("pwl", ("far", 4), 2),
                 ("pwc", ("tiny", 3), 1), ("pwl", ("tiny", 3), 1)]
    else:
        specs = [("pwc", ("reg", 4), 3), ("pwl", ("reg", 4), 3), ("pwc", ("reg", 5), 2),
                 ("pwl", ("reg", 5), 2), ("pwc", ("reg", 6), 2), ("pwl", ("reg", 6), 2),
                 ("pwc", ("reg", 7), 1), ("pwl", ("reg", 7), 1),
                 ("pwc", ("near", 3), 2), ("pwl", ("near", 3), 2), ("pwc", ("near", 4), 1),
                 ("pwl", ("near", 4), 1), ("pwc", ("far", 4), 2), ("pwl", ("far", 5), 2)]
    tasks = []
    desc = []
    for kind, spec, depth in specs:
        names = [n for n, _, _ in menu_for(kind, spec)]
        nsh = min(len(names), 16 if depth < 3 else 48)
        for be in ("py", "pyx"):
            for s in range(nsh):
                tasks.append({"backend": be, "kind": kind, "grid": list(spec), "depth": depth,
                              "shard": s, "nshards": nsh})
        desc.append({"class": kind, "grid": list(spec), "grid_points": grid_of(spec),
                     "operand_menu": len(names), "history_depth": depth, "scalars": SCALARS,
                     "value_patterns": H.PWC_PATTERNS if kind == "pwc" else
                     (H.PWL_PATTERNS if spec[0] == "far" else H.PWL_PATTERNS[:3])})
    return {
        "tasks": tasks,
        "bounds": {"explorations": desc, "backends": ["py", "pyx-model (cython_add)"]},
        "rule": "breadth-first search over operation histories add(g)/mul_scalar(c)/copy() on live "
                "PieceWiseConstFunc / PieceWiseLinFunc objects, starting from every function of "
                "the operand menu (all breakpoint subsets of the interior grid points x value "
                "patterns incl. Python-int values); 'reg' grids are the time lattice, 'near' grids "
                "add breakpoints 2^-30 next to lattice points (near-ties), 'far' grids are the "
                "lattice moved to 2^27; states are "
                "deduplicated by the exact model state; distinct = distinct model states reached",
        "exhaustive": True,
        "assumptions": ["breakpoints on the stated grids, dyadic values (all sums exact)",
                        "pyx configuration = rendered cython_add.pyx"],
        "explanation": "every state: breakpoints = strictly increasing union with unchanged end "
                       "points, piece values / one-sided limits and the integral equal the exact "
                       "grid model; every transition: operand byte-identical (and the operands of all "
                       "earlier adds; scaling the operand leaves the sum alone), copies independent "
                       "in both directions; merging histories must have produced the same object "
                       "(order independence); f+g vs g+f and average_profile over all pairs",
    }


def make_state_check(kind):
    def state_check(obj, model):
        """returns None or (sub, expected, observed, message)"""
        c = H.canon(kind, obj)
        x, ys = model.expected()
        if list(c[0]) != x:
            return ("breakpoints", x, c[0],
                    "breakpoints are not the strictly increasing union of the operands' "
                    "breakpoints with unchanged end points")
        for got, exp in zip(c[1:], ys):
            if len(got) != len(exp) or any(abs(a - b) > TOL for a, b in zip(got, exp)):
                return ("values", ys, c[1:], "piece values / one-sided limits differ from the "
                        "pointwise linear combination")
        try:
            I = float(obj.integral())
        except Exception as e:
            return ("integral.exception", "a number", "%s: %s" % (type(e).__name__, e),
                    "integral() raised")
        Ie = float(model.integral())
        if abs(I - Ie) > TOL:
            return ("integral", Ie, I, "integral is not the combination of the operands' integrals")
        return None
    return state_check


def pair_checks(kind, by_name, a, b, state_check):
    """commutativity and average_profile for the operand pair (a, b)"""
    from pyspike.DiscreteFunc import average_profile
    out = []
    try:
        fa, ma = H.replay_history(kind, by_name, [a, ("add", b)])
        fb, mb = H.replay_history(kind, by_name, [b, ("add", a)])
        if not H._canon_close(H.canon(kind, fa), H.canon(kind, fb), kind):
            out.append(("commutativity", H.canon(kind, fb), H.canon(kind, fa),
                        "f.add(g) and g.add(f) differ"))
        pa = H.build(kind, by_name[a][0])
        pb = H.build(kind, by_name[b][0])
        sa, sb = H.snapshot(kind, pa), H.snapshot(kind, pb)
        avg = average_profile([pa, pb])
        if H.snapshot(kind, pa) != sa or H.snapshot(kind, pb) != sb:
            out.append(("average_profile.modifies", "inputs unchanged", "changed",
                        "average_profile modified one of its inputs"))
        bad = state_check(avg, ma.mul(0.5))
        if bad:
            out.append(("average_profile." + bad[0], bad[1], bad[2], bad[3]))
    except Exception as e:
        out.append(("pair.exception", "succeeds", "%s: %s" % (type(e).__name__, e),
                    "add / average_profile raised"))
    return out


def run_task(task):
    r = Result()
    kind, spec, depth = task["kind"], tuple(task["grid"]), task["depth"]
    be = task["backend"]
    menu = menu_for(kind, spec)
    names = [n for n, _, _ in menu]
    inits = [n for i, n in enumerate(names) if i % task["nshards"] == task["shard"]]
    by_name = {n: (a, m) for n, a, m in menu}
    state_check = make_state_check(kind)

    def viol(sub, hist, exp, obs, msg):
        case = {"kind": kind, "grid": list(spec)}
        if isinstance(hist, dict):
            case.update(hist)
        else:
            case["history"] = hist
        cls = "int" if ":int" in str(hist) else "float"
        r.violation(ID, sub, be, "%s/%s/%s/%s/%s" % (sub, kind, spec[0], be, cls), case, exp, obs,
                    msg, (len(str(hist)),))

    def on_state(obj, model, hist):
        r.evaluations += 1
        r.traces += 1
        r.sigs.add(hash(model.key()) & 0xffffffffffff)
        bad = state_check(obj, model)
        if bad:
            viol(bad[0], hist, bad[1], bad[2], bad[3])
        if r.states % 199 == 1:
            r.sample({"kind": kind, "history": hist, "state": H.canon(kind, obj)})

    H.explore(kind, menu, inits, names, SCALARS, depth, r, on_state, viol)
    for a in inits:
        for b in names:
            r.transitions += 1
            for sub, exp, obs, msg in pair_checks(kind, by_name, a, b, state_check):
                viol(sub, {"pair": [a, b]}, exp, obs, msg)
    return r


def replay(rec):
    r = Result()
    c = rec["case"]
    kind, spec = c["kind"], tuple(c["grid"])
    be = rec["backend"]
    menu = menu_for(kind, spec)
    names = [n for n, _, _ in menu]
    by_name = {n: (a, m) for n, a, m in menu}
    state_check = make_state_check(kind)
    found = []
    if "pair" in c:
        found = pair_checks(kind, by_name, c["pair"][0], c["pair"][1], state_check)
    else:
        found = H.replay_checks(kind, menu, c["history"], names[0], state_check)
        if "other_history" in c:
            found += H.replay_checks(kind, menu, c["other_history"], names[0], state_check)
            o1, _ = H.replay_history(kind, by_name, H.norm_hist(c["history"]))
            o2, _ = H.replay_history(kind, by_name, H.norm_hist(c["other_history"]))
            if not H._canon_close(H.canon(kind, o1), H.canon(kind, o2), kind):
                found.append(("order_dependence", H.canon(kind, o2), H.canon(kind, o1),
                              "two histories denoting the same function produced different "
                              "objects"))
    for sub, exp, obs, msg in found:
        r.violation(ID, sub, be, rec["signature"], c, exp, obs, msg)
    return r
