"""C10 - integral, average and evaluation of piecewise functions are exact."""
import numpy as np

from mc import history as H
from mc.common import TOL, U, T0
from mc.runner import Result

ID = "C10"
LEVEL = "model_checking"


def grid_of(spec):
    return H.grid_of(spec)


def menu_for(kind, spec):
    G = grid_of(spec)
    return H.pwc_menu(G) if kind == "pwc" else H.pwl_menu(G)


def plan(tier):
    if tier == "quick":
        specs = [("reg", L) for L in (1, 2, 3, 4, 5, 6, 7)] + [("near", 2), ("near", 3), ("near", 4),
                                                                ("far", 3), ("far", 4)]
    else:
        specs = [("reg", L) for L in (1, 2, 3, 4, 5, 6, 7, 8, 9)] + \
            [("near", 2), ("near", 3), ("near", 4), ("near", 5), ("far", 3), ("far", 5)]
    tasks, desc = [], []
    for kind in ("pwc", "pwl"):
        for spec in specs:
            n = len(menu_for(kind, spec))
            cells = len(grid_of(spec)) - 1
            nsh = max(1, min(16, n // 4))
            for s in range(nsh):
                tasks.append({"backend": "py", "kind": kind, "grid": list(spec), "shard": s,
                              "nshards": nsh})
            desc.append({"class": kind, "grid": list(spec), "grid_cells": cells, "functions": n,
                         "intervals": "all a<b on the half-grid (%d)" % ((2 * cells + 1) * cells),
                         "interval_lists": "all ordered pairs of disjoint half-grid intervals"
                                           if cells <= 4 else "adjacent pairs",
                         "evaluation_times": 2 * cells + 1})
    return {
        "tasks": tasks,
        "bounds": {"explorations": desc},
        "rule": "every function of the operand menu (all breakpoint subsets of the interior "
                "grid points x value patterns: positive, negative, alternating, Python ints / "
                "continuous ramps, jumps, negative slopes) x every interval a<b on the half-grid "
                "(grid points and cell midpoints: ends on and between breakpoints, inside one "
                "piece, on the end points) x every half-grid evaluation time; 'reg' grids are the "
                "time lattice, 'near' grids add points 2^-30 next to lattice points so that times "
                "and interval ends very close to, but not on, a breakpoint are covered; distinct = "
                "distinct functions",
        "exhaustive": True,
        "assumptions": ["breakpoints on the lattice, interval ends and times on the half-lattice, "
                        "dyadic values", "backend-independent code (no compiled variant exists)"],
        "explanation": "integral/avrg (single interval, None, lists of intervals), additivity over "
                       "every split point, scalar and list evaluation, plottable arrays, and the "
                       "ValueError contract of constant pieces, all against the exact grid model",
    }


def check_function(r, kind, spec, name, args, model, be="py"):
    f = H.build(kind, args)
    snap = H.snapshot(kind, f)
    G = grid_of(spec)
    L = len(G) - 1
    case0 = {"kind": kind, "grid": list(spec), "function": name, "args": args}

    def viol(sub, extra, exp, obs, msg):
        r.violation(ID, sub, be, "%s/%s" % (sub, kind), dict(case0, **extra), exp, obs, msg,
                    (L, len(name)))

    pts = [H.fpos(G, j) for j in range(2 * L + 1)]
    n2 = 2 * L
    # ---- integrals over every interval
    I = {}
    for a2 in range(n2 + 1):
        for b2 in range(a2 + 1, n2 + 1):
            r.evaluations += 1
            iv = [pts[a2], pts[b2]]
            try:
                v = float(f.integral(iv))
                av = float(f.avrg(iv))
                vt = float(f.integral((pts[a2], pts[b2])))
            except Exception as e:
                viol("integral.exception", {"interval": iv}, "a number",
                     "%s: %s" % (type(e).__name__, e), "integral/avrg raised inside the support")
                return
            ve = float(model.integral(a2, b2))
            I[(a2, b2)] = v
            if abs(v - ve) > TOL or abs(vt - ve) > TOL:
                viol("integral", {"interval": iv}, ve, v, "integral over [a,b] is not the exact "
                     "Riemann integral")
                return
            if abs(av - ve / (pts[b2] - pts[a2])) > TOL + 1e-13 / (pts[b2] - pts[a2]):
                viol("avrg", {"interval": iv}, ve / (pts[b2] - pts[a2]), av,
                     "avrg is not integral / interval length")
                return
    # additivity over every split point
    for (a2, b2), v in I.items():
        for m2 in range(a2 + 1, b2):
            if abs(I[(a2, m2)] + I[(m2, b2)] - v) > TOL:
                viol("additivity", {"interval": [pts[a2], pts[b2]], "split": pts[m2]}, v,
                     I[(a2, m2)] + I[(m2, b2)], "integrals over adjacent intervals do not add up")
                return
    # whole support
    try:
        w = float(f.integral())
        wa = float(f.avrg())
    except Exception as e:
        viol("integral.exception", {"interval": None}, "a number", "%s: %s" % (type(e).__name__, e),
             "integral()/avrg() raised")
        return
    we = float(model.integral())
    if abs(w - we) > TOL or abs(w - I[(0, n2)]) > TOL or abs(wa - we / (pts[-1] - pts[0])) > TOL:
        viol("integral.whole", {}, {"integral": we, "avrg": we / (pts[-1] - pts[0])},
             {"integral()": w, "integral(full)": I[(0, n2)], "avrg()": wa},
             "integral over the full support differs from the integral without interval")
        return
    # lists of intervals
    ivs = [(a2, b2) for a2 in range(n2 + 1) for b2 in range(a2 + 1, n2 + 1)]
    if L <= 4:
        combos = [(p, q) for p in ivs for q in ivs if p[1] <= q[0] or q[1] <= p[0]]
    else:
        combos = [(p, q) for p in ivs for q in ivs if p[1] == q[0]]
    for p, q in combos:
        r.evaluations += 1
        lst = [[pts[p[0]], pts[p[1]]], [pts[q[0]], pts[q[1]]]]
        try:
            av = float(f.avrg(lst))
        except Exception as e:
            viol("avrg.list.exception", {"intervals": lst}, "a number",
                 "%s: %s" % (type(e).__name__, e), "avrg over a list of intervals raised")
            return
        ae = float(model.integral(*p) + model.integral(*q)) / \
            ((pts[p[1]] - pts[p[0]]) + (pts[q[1]] - pts[q[0]]))
        if abs(av - ae) > TOL + 1e-13 / ((pts[p[1]] - pts[p[0]]) + (pts[q[1]] - pts[q[0]])):
            viol("avrg.list", {"intervals": lst}, ae, av,
                 "avrg over several intervals is not summed integrals / summed lengths")
            return
    # ---- evaluation
    exp = [float(model.value(t2)) for t2 in range(n2 + 1)]
    try:
        sc = [float(f(t)) for t in pts]
        ls = [float(v) for v in f(list(pts))]
        one = [float(f([t])[0]) for t in pts]
        rev = [float(v) for v in f(list(pts[::-1]))][::-1]
    except Exception as e:
        viol("call.exception", {}, "values", "%s: %s" % (type(e).__name__, e),
             "evaluation raised for a time inside the support")
        return
    r.evaluations += len(pts)
    for nm, got in (("scalar", sc), ("list", ls), ("single-element list", one),
                    ("reversed list", rev)):
        if any(abs(a - b) > TOL for a, b in zip(got, exp)):
            viol("call." + nm.split()[0], {"times": pts, "form": nm}, exp, got,
                 "evaluation differs from piece value / interpolation / mean of limits at an "
                 "interior breakpoint / one-sided limit at the ends")
            return
    # ---- plottable data trace the pieces
    try:
        xp, yp = f.get_plottable_data()
        xp, yp = np.asarray(xp, float).tolist(), np.asarray(yp, float).tolist()
    except Exception as e:
        viol("plottable.exception", {}, "arrays", "%s: %s" % (type(e).__name__, e),
             "get_plottable_data raised")
        return
    x, ys = model.expected()
    xe, ye = [], []
    for j in range(len(x) - 1):
        xe += [x[j], x[j + 1]]
        if kind == "pwc":
            ye += [ys[0][j], ys[0][j]]
        else:
            ye += [ys[0][j], ys[1][j]]
    if xp != xe or any(abs(a - b) > TOL for a, b in zip(yp, ye)) or len(yp) != len(ye):
        viol("plottable", {}, {"x": xe, "y": ye}, {"x": xp, "y": yp},
             "plottable arrays do not trace the pieces")
        return
    # ---- bounds validation (constant pieces only)
    if kind == "pwc":
        for iv in ([pts[0] - U, pts[1]], [pts[0], pts[-1] + U], [pts[-1], pts[0]],
                   [float(np.nextafter(pts[0], -np.inf)), pts[1]],
                   [pts[0], float(np.nextafter(pts[-1], np.inf))],
                   [pts[1], pts[0]] if len(pts) > 1 else [pts[-1], pts[0]]):
            try:
                v = f.integral(iv)
                viol("bounds", {"interval": iv}, "ValueError", v,
                     "integral of a constant-piece function accepted an interval outside the "
                     "support / an inverted interval")
                return
            except ValueError:
                pass
            except Exception as e:
                viol("bounds", {"interval": iv}, "ValueError", "%s: %s" % (type(e).__name__, e),
                     "wrong exception type for an invalid interval")
                return
    if H.snapshot(kind, f) != snap:
        viol("modified", {}, "unchanged", H.canon(kind, f), "a read-only operation modified the "
             "function")
        return
    # queries after an in-place change must see the changed function (nothing may be cached
    # across mul_scalar)
    try:
        f.mul_scalar(0.5)
        w2, a2 = float(f.integral()), float(f.avrg())
        mid = [float(f(t)) for t in pts]
    except Exception as e:
        viol("after_mul.exception", {}, "values", "%s: %s" % (type(e).__name__, e),
             "queries after mul_scalar raised")
        return
    if abs(w2 - 0.5 * we) > TOL or abs(a2 - 0.5 * we / (pts[-1] - pts[0])) > TOL or \
            any(abs(a - 0.5 * b) > TOL for a, b in zip(mid, exp)):
        viol("after_mul", {"sequence": "integral(); avrg(); f(t); mul_scalar(0.5); integral(); "
                                       "avrg(); f(t)"},
             {"integral": 0.5 * we, "avrg": 0.5 * we / (pts[-1] - pts[0])},
             {"integral": w2, "avrg": a2},
             "integral / avrg / evaluation after mul_scalar do not reflect the scaled function")
    r.outcomes.add(tuple(round(v, 9) for v in exp))


def run_task(task):
    r = Result()
    kind, spec = task["kind"], tuple(task["grid"])
    for i, (name, args, model) in enumerate(menu_for(kind, spec)):
        if i % task["nshards"] != task["shard"]:
            continue
        r.states += 1
        r.transitions += 1
        r.traces += 1
        r.sigs.add(hash(model.key()) & 0xffffffffffff)
        check_function(r, kind, spec, name, args, model)
        if i % 7 == 0:
            r.sample({"kind": kind, "function": name, "x": args[0], "values": args[1:]})
    return r


def replay(rec):
    r = Result()
    c = rec["case"]
    for name, args, model in menu_for(c["kind"], tuple(c["grid"])):
        if name == c["function"]:
            check_function(r, c["kind"], tuple(c["grid"]), name, args, model)
    return r
