"""Worker bootstrap: import the pyspike under test and switch between the two
backend configurations (DESIGN 2.6).

  py  - every `from .cython.cython_x import ...` raises ImportError, the
        pure-Python fallback runs (the tree as it runs today)
  pyx - the five .pyx files rendered by pyxmodel are installed under the
        extension names, so the "compiled kernel" branches of the public API run
"""
import os
import sys
import warnings

import numpy as np

from . import common

_state = {"ready": False, "backend": None, "pyx": None, "pyx_error": None,
          "pyx_info": None}

EXT_NAMES = ["cython_get_tau", "cython_add", "cython_profiles",
             "cython_distances", "cython_directionality",
             "cython_simulated_annealing"]


def setup(repo=None):
    """Import pyspike from `repo` (default $VERIF_REPO or /repo)."""
    if _state["ready"]:
        return
    repo = repo or common.REPO
    repo = os.path.abspath(repo)
    # make sure the tree under test wins over any installed copy
    sys.path[:] = [p for p in sys.path if os.path.abspath(p or ".") != repo]
    sys.path.insert(0, repo)
    for k in list(sys.modules):
        if k == "pyspike" or k.startswith("pyspike."):
            del sys.modules[k]
    warnings.simplefilter("ignore")
    np.seterr(all="ignore")
    with common.quiet():
        import pyspike
    got = os.path.abspath(os.path.dirname(os.path.dirname(pyspike.__file__)))
    if got != repo:
        raise RuntimeError("imported pyspike from %s, expected %s" % (got, repo))
    pyspike.disable_backend_warning = True
    _state["repo"] = repo
    _state["ready"] = True
    use("py")


def render_pyx():
    """Render the .pyx files once per process; returns True if available."""
    if _state["pyx"] is not None or _state["pyx_error"] is not None:
        return _state["pyx"] is not None
    from . import pyxmodel
    use("py")
    try:
        mods, info = pyxmodel.render_repo(_state["repo"])
        _state["pyx"] = mods
        _state["pyx_info"] = info
    except pyxmodel.RenderError as e:
        _state["pyx_error"] = "RenderError: %s" % e
    except Exception as e:  # a syntax error in a mutated .pyx etc.
        _state["pyx_error"] = "%s: %s" % (type(e).__name__, e)
    return _state["pyx"] is not None


def pyx_error():
    return _state["pyx_error"]


def pyx_info():
    return _state["pyx_info"]


def use(backend):
    """Switch the backend configuration of this process."""
    if _state["backend"] == backend:
        return
    import pyspike.cython as pkg
    if backend == "py":
        for n in EXT_NAMES:
            sys.modules["pyspike.cython." + n] = None
            if hasattr(pkg, n):
                try:
                    delattr(pkg, n)
                except AttributeError:
                    pass
    elif backend == "pyx":
        if not render_pyx():
            raise RuntimeError("pyx-model unavailable: %s" % _state["pyx_error"])
        for n in EXT_NAMES:
            full = "pyspike.cython." + n
            if full in _state["pyx"]:
                sys.modules[full] = _state["pyx"][full]
                setattr(pkg, n, _state["pyx"][full])
            else:
                sys.modules[full] = None
    else:
        raise ValueError(backend)
    _state["backend"] = backend


def current():
    return _state["backend"]


def kernels():
    """Return the rendered kernel modules (pyx) as a dict short-name -> module."""
    if not render_pyx():
        raise RuntimeError("pyx-model unavailable: %s" % _state["pyx_error"])
    return {k.split(".")[-1]: v for k, v in _state["pyx"].items()}
