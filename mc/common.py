"""Shared constants and small helpers."""
import os
import sys
import io
import contextlib
import hashlib
import json

VERIF = os.path.dirname(os.path.dirname(os.path.abspath(__file__)))
REPO = os.environ.get("VERIF_REPO", "/repo")
SEED = int(os.environ.get("VERIF_SEED", "0") or 0)

# time lattice (DESIGN 2.1): t = T0 + k*U, all dyadic
U = 0.25
T0 = 0.5

TOL = 1e-10       # absolute tolerance for "up to rounding" comparisons


class _Sink(io.TextIOBase):
    def write(self, s):
        return len(s)


_SINK = _Sink()


@contextlib.contextmanager
def quiet():
    """Swallow the library's stdout noise (backend warning, debug prints)."""
    old = sys.stdout
    sys.stdout = _SINK
    try:
        yield
    finally:
        sys.stdout = old


def stable_hash(obj):
    """64-bit hash that does not depend on PYTHONHASHSEED."""
    h = hashlib.blake2b(repr(obj).encode(), digest_size=8).digest()
    return int.from_bytes(h, "big")


def jsonable(x):
    """Convert numpy scalars/arrays, tuples, Fractions ... to JSON-able data."""
    import numpy as np
    from fractions import Fraction
    if isinstance(x, dict):
        return {str(k): jsonable(v) for k, v in x.items()}
    if isinstance(x, (list, tuple, set, frozenset)):
        return [jsonable(v) for v in x]
    if isinstance(x, np.ndarray):
        return jsonable(x.tolist())
    if isinstance(x, (np.floating,)):
        return jsonable(float(x))
    if isinstance(x, (np.integer,)):
        return int(x)
    if isinstance(x, (np.bool_,)):
        return bool(x)
    if isinstance(x, Fraction):
        return float(x)
    if isinstance(x, float):
        if x != x:
            return "nan"
        if x in (float("inf"), float("-inf")):
            return "inf" if x > 0 else "-inf"
        return x
    if isinstance(x, (int, str, bool)) or x is None:
        return x
    return repr(x)


def dumps(x):
    return json.dumps(jsonable(x), sort_keys=True)
