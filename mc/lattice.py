"""Recording explorer: input space as a state graph (DESIGN 2.2).

state  = (k, (mask_1, ..., mask_N))   k = clock = recording length in ticks;
         bit i of mask_n set  <=>  train n spikes at tick i (0 <= i <= k)
         the recording is [T0, T0 + k*U]
seed   = the 2^N states with clock 0
trans  = for S subset of {1..N}: (k, masks) -> (k+1, masks with bit k+1 set for n in S)

Every state with k >= 1 is a complete valid recording and is checked.  The
graph is a tree (every state has exactly one predecessor: drop the last tick),
so the number of transitions taken equals the number of checked states.

Regimes: dense (all subsets at every tick) and bounded(d) (every train spikes in
at most d ticks; a spiking tick is the deviation from the default answer
"no spike").
"""
from itertools import product

from .common import T0, U, stable_hash


def popcount(x):
    return bin(x).count("1")


def masks_for(k, d=None):
    """All spike masks of one train for clock k (ticks 0..k), ascending by
    number of spikes then value (simplest first)."""
    n = 1 << (k + 1)
    if d is None:
        ms = list(range(n))
    else:
        ms = [m for m in range(n) if popcount(m) <= d]
    ms.sort(key=lambda m: (popcount(m), m))
    return ms


def ticks(mask):
    out = []
    i = 0
    while mask:
        if mask & 1:
            out.append(i)
        mask >>= 1
        i += 1
    return out


def times(mask, t0=T0, u=U):
    return [t0 + i * u for i in ticks(mask)]


def edges(k, t0=T0, u=U):
    return [t0, t0 + k * u]


def count_states(N, k, d=None):
    return len(masks_for(k, d)) ** N


def iter_states(N, kmin, kmax, d=None, shard=0, nshards=1):
    """Breadth-first by clock.  Yields (k, masks) for the states of this shard.
    Sharding is by running index modulo nshards, so that the union over shards
    is exactly the full state set, independent of any seed."""
    idx = 0
    for k in range(kmin, kmax + 1):
        ms = masks_for(k, d)
        for combo in product(ms, repeat=N):
            if idx % nshards == shard:
                yield k, combo
            idx += 1


def region_sizes(N, kmin, kmax, d=None):
    """(states, transitions, seeds) of the explored region."""
    states = sum(count_states(N, k, d) for k in range(kmin, kmax + 1))
    return states


def signature(k, masks):
    """Behaviour class of a recording: the sequence of spiking subsets, the rank
    pattern of the gaps between consecutive events (including the two edges),
    and whether the first/last event sits on an edge.  Two recordings with the
    same signature drive the merge scans through the same branch sequence and
    the same outcome of every ISI-vs-ISI comparison up to monotone rescaling."""
    ev = []
    pos = []
    for i in range(k + 1):
        s = 0
        for n, m in enumerate(masks):
            if (m >> i) & 1:
                s |= 1 << n
        if s:
            ev.append(s)
            pos.append(i)
    if not ev:
        return stable_hash(("empty", len(masks)))
    gaps = [pos[0]] + [pos[j + 1] - pos[j] for j in range(len(pos) - 1)] + [k - pos[-1]]
    ranks = {g: r for r, g in enumerate(sorted(set(gaps)))}
    # per-train gap ranks matter too (ISI comparisons are per train)
    per = []
    for n, m in enumerate(masks):
        tk = ticks(m)
        g = ([tk[0]] + [tk[j + 1] - tk[j] for j in range(len(tk) - 1)] + [k - tk[-1]]) if tk else [k]
        per.append(tuple(g))
    allg = sorted(set(x for g in per for x in g) | set(gaps))
    rk = {g: r for r, g in enumerate(allg)}
    return stable_hash((tuple(ev), tuple(rk[g] for g in gaps),
                        tuple(tuple(rk[x] for x in g) for g in per)))


def nontrivial(masks):
    """A recording is non-trivial when at least two trains carry a spike."""
    return sum(1 for m in masks if m) >= 2
