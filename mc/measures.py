"""Uniform access to the public measures: observe(name, trains, **kw) -> dict."""
import numpy as np


def observe(name, sts, kw, scalar=True):
    """Run the public profile (+ scalar) function `name` on the SpikeTrain list
    `sts` (two trains are passed as two arguments, more as a list)."""
    import pyspike as spk
    args = list(sts) if len(sts) == 2 else [list(sts)]
    out = {}
    if name == "isi":
        p = spk.isi_profile(*args, **kw)
        out["x"] = np.asarray(p.x, float)
        out["y"] = np.asarray(p.y, float)
        if scalar:
            out["v"] = float(spk.isi_distance(*args, **kw))
    elif name == "spike":
        p = spk.spike_profile(*args, **kw)
        out["x"] = np.asarray(p.x, float)
        out["y1"] = np.asarray(p.y1, float)
        out["y2"] = np.asarray(p.y2, float)
        if scalar:
            out["v"] = float(spk.spike_distance(*args, **kw))
    elif name == "sync":
        p = spk.spike_sync_profile(*args, **kw)
        out["x"] = np.asarray(p.x, float)
        out["y"] = np.asarray(p.y, float)
        out["mp"] = np.asarray(p.mp, float)
        if scalar:
            out["v"] = float(spk.spike_sync(*args, **kw))
    elif name == "order":
        p = spk.spike_train_order_profile(*args, **kw)
        out["x"] = np.asarray(p.x, float)
        out["y"] = np.asarray(p.y, float)
        out["mp"] = np.asarray(p.mp, float)
        if scalar:
            out["v"] = float(spk.spike_train_order(*args, **kw))
    else:
        raise ValueError(name)
    out["profile"] = p
    return out


def scale_kw(kw, c):
    """scale the time-like keyword values (MRTS, max_tau) by c"""
    out = dict(kw)
    for k in ("MRTS", "max_tau"):
        if k in out and out[k] is not None and not isinstance(out[k], str):
            out[k] = out[k] * c
    return out
