"""Uniform access to the public measures: observe(name, trains, **kw) -> dict."""
import numpy as np


def observe(name, sts, kw, scalar=True):
    """Run the public profile (+ scalar) function `name` on the SpikeTrain list
    `sts` (two trains are passed as two arguments, more as a list)."""
    import pyspike as spk
    args = list(sts) if len(sts) == 2 else [list(sts)]
    out = {}
    if name == "isi":
        p = spk.isi_profile(*args, **kw)
        out["x"] = np.asarray(p.x, float)
        out["y"] = np.asarray(p.y, float)
        if scalar:
            out["v"] = float(spk.isi_distance(*args, **kw))
    elif name == "spike":
        p = spk.spike_profile(*args, **kw)
        out["x"] = np.asarray(p.x, float)
        out["y1"] = np.asarray(p.y1, float)
        out["y2"] = np.asarray(p.y2, float)
        if scalar:
            out["v"] = float(spk.spike_distance(*args, **kw))
    elif name == "sync":
        p = spk.spike_sync_profile(*args, **kw)
        out["x"] = np.asarray(p.x, float)
        out["y"] = np.asarray(p.y, float)
        out["mp"] = np.asarray(p.mp, float)
        if scalar:
            out["v"] = float(spk.spike_sync(*args, **kw))
    elif name == "order":
        p = spk.spike_train_order_profile(*args, **kw)
        out["x"] = np.asarray(p.x, float)
        out["y"] = np.asarray(p.y, float)
        out["mp"] = np.asarray(p.mp, float)
        if scalar:
            out["v"] = float(spk.spike_train_order(*args, **kw))
    else:
        raise ValueError(name)
    out["profile"] = p
    return out


def scale_kw(kw, c):
    """scale the time-like keyword values (MRTS, max_tau) by c"""
    out = dict(kw)
    for k in ("MRTS", "max_tau"):
        if k in out and out[k] is not None and not isinstance(out[k], str):
            out[k] = out[k] * c
    return out


# ----------------------------------------------------------------------------
# entry-point table: every public measure function, in the call forms it offers
# ----------------------------------------------------------------------------
def _prof(p):
    out = {}
    for k in ("x", "y", "y1", "y2", "mp"):
        if hasattr(p, k):
            out[k] = np.asarray(getattr(p, k), float).tolist()
    return out


def _lst(v):
    return np.asarray(v, float).tolist()


def entry_points():
    """-> list of (name, min_trains, fn) with fn(sts, **kw) -> JSON-able observation.
    `sts` is a list of SpikeTrain objects; bivariate forms use the first two."""
    import pyspike as spk
    E = []
    E.append(("isi_profile(a,b)", 2, lambda s, **kw: _prof(spk.isi_profile(s[0], s[1], **kw))))
    E.append(("isi_profile(list)", 2, lambda s, **kw: _prof(spk.isi_profile(s, **kw))))
    E.append(("isi_profile_multi", 2, lambda s, **kw: _prof(spk.isi_profile_multi(s, **kw))))
    E.append(("isi_distance(a,b)", 2, lambda s, **kw: float(spk.isi_distance(s[0], s[1], **kw))))
    E.append(("isi_distance(list)", 2, lambda s, **kw: float(spk.isi_distance(s, **kw))))
    E.append(("isi_distance_multi", 2, lambda s, **kw: float(spk.isi_distance_multi(s, **kw))))
    E.append(("isi_distance_matrix", 2, lambda s, **kw: _lst(spk.isi_distance_matrix(s, **kw))))
    E.append(("spike_profile(a,b)", 2, lambda s, **kw: _prof(spk.spike_profile(s[0], s[1], **kw))))
    E.append(("spike_profile(list)", 2, lambda s, **kw: _prof(spk.spike_profile(s, **kw))))
    E.append(("spike_profile_multi", 2, lambda s, **kw: _prof(spk.spike_profile_multi(s, **kw))))
    E.append(("spike_distance(a,b)", 2, lambda s, **kw: float(spk.spike_distance(s[0], s[1], **kw))))
    E.append(("spike_distance(list)", 2, lambda s, **kw: float(spk.spike_distance(s, **kw))))
    E.append(("spike_distance_multi", 2, lambda s, **kw: float(spk.spike_distance_multi(s, **kw))))
    E.append(("spike_distance_matrix", 2, lambda s, **kw: _lst(spk.spike_distance_matrix(s, **kw))))
    E.append(("spike_sync_profile(a,b)", 2,
              lambda s, **kw: _prof(spk.spike_sync_profile(s[0], s[1], **kw))))
    E.append(("spike_sync_profile(list)", 2, lambda s, **kw: _prof(spk.spike_sync_profile(s, **kw))))
    E.append(("spike_sync_profile_multi", 2,
              lambda s, **kw: _prof(spk.spike_sync_profile_multi(s, **kw))))
    E.append(("spike_sync(a,b)", 2, lambda s, **kw: float(spk.spike_sync(s[0], s[1], **kw))))
    E.append(("spike_sync(list)", 2, lambda s, **kw: float(spk.spike_sync(s, **kw))))
    E.append(("spike_sync_multi", 2, lambda s, **kw: float(spk.spike_sync_multi(s, **kw))))
    E.append(("spike_sync_matrix", 2, lambda s, **kw: _lst(spk.spike_sync_matrix(s, **kw))))
    E.append(("filter_by_spike_sync", 2,
              lambda s, **kw: [[t.spikes.tolist(), t.t_start, t.t_end] for part in
                               spk.filter_by_spike_sync(s, 0.4, return_removed_spikes=True, **kw)
                               for t in part]))
    E.append(("spike_train_order_profile(a,b)", 2,
              lambda s, **kw: _prof(spk.spike_train_order_profile(s[0], s[1], **kw))))
    E.append(("spike_train_order_profile(list)", 2,
              lambda s, **kw: _prof(spk.spike_train_order_profile(s, **kw))))
    E.append(("spike_train_order_profile_bi", 2,
              lambda s, **kw: _prof(spk.spike_train_order_profile_bi(s[0], s[1], **kw))))
    E.append(("spike_train_order_profile_multi", 2,
              lambda s, **kw: _prof(spk.spike_train_order_profile_multi(s, **kw))))
    E.append(("spike_train_order(a,b)", 2,
              lambda s, **kw: float(spk.spike_train_order(s[0], s[1], **kw))))
    E.append(("spike_train_order(list)", 2, lambda s, **kw: float(spk.spike_train_order(s, **kw))))
    E.append(("spike_train_order_bi", 2,
              lambda s, **kw: float(spk.spike_train_order_bi(s[0], s[1], **kw))))
    E.append(("spike_train_order_multi", 2,
              lambda s, **kw: float(spk.spike_train_order_multi(s, **kw))))
    E.append(("spike_directionality", 2,
              lambda s, **kw: float(spk.spike_directionality(s[0], s[1], **kw))))
    E.append(("spike_directionality_values(a,b)", 2,
              lambda s, **kw: [_lst(a) for a in spk.spike_directionality_values(s[0], s[1], **kw)]))
    E.append(("spike_directionality_values(list)", 2,
              lambda s, **kw: [_lst(a) for a in spk.spike_directionality_values(s, **kw)]))
    E.append(("spike_directionality_matrix", 2,
              lambda s, **kw: _lst(spk.spike_directionality_matrix(s, **kw))))
    return E


def accepts(name, kw):
    """does entry point `name` take the keywords in kw?"""
    isi_spike = name.startswith("isi_") or name.startswith("spike_profile") or \
        name.startswith("spike_distance")
    if "max_tau" in kw and isi_spike:
        return False
    if "RI" in kw and not (name.startswith("spike_profile") or name.startswith("spike_distance")):
        return False
    return True


def obs_close(a, b, tol=1e-10):
    """structural comparison of two observations"""
    if isinstance(a, dict) and isinstance(b, dict):
        return set(a) == set(b) and all(obs_close(a[k], b[k], tol) for k in a)
    if isinstance(a, (list, tuple)) and isinstance(b, (list, tuple)):
        return len(a) == len(b) and all(obs_close(p, q, tol) for p, q in zip(a, b))
    if isinstance(a, (int, float)) and isinstance(b, (int, float)):
        if a != a or b != b:
            return a != a and b != b
        return abs(a - b) <= tol
    return a == b


def bivariate_forms(fn, st1, st2, edges, **kw):
    """The bivariate result of a profile function `fn` obtained through its other
    call forms: a two-element list, and a longer list with `indices` naming the two
    trains (the extra train differs from both).  -> [(form name, profile)]"""
    import pyspike as spk
    ts, te = edges
    dummy = spk.SpikeTrain([ts + (te - ts) * 0.625], edges)
    return [("f([a,b])", fn([st1, st2], **kw)),
            ("f([x,a,b], indices=[1,2])", fn([dummy, st1, st2], indices=[1, 2], **kw)),
            ("f([a,x,b], indices=[0,2])", fn([st1, dummy, st2], indices=[0, 2], **kw))]
