"""Helpers shared by the checks that explore lists of trains on the lattice."""
from . import lattice
from .common import T0, U
from .runner import Result

NSHARDS = 32


def tiny_grid(L):
    from .history import tiny
    return tiny(L)


def near_grid(L):
    """time lattice 0..L plus near-tie companions (2^-30 next to the interior
    lattice points): spike times that are close to, but not equal to, each other
    or a lattice point"""
    from .history import near
    return near(L)


FAR = 2.0 ** 27          # offset of the 'far' regime (exactly representable with the lattice)
FAR_K = 1000             # clocks of far states are encoded as FAR_K + k


def _regime_size(N, rg):
    if rg[0] == "far":
        return sum(lattice.count_states(N, k, None) for k in range(rg[-2], rg[-1] + 1))
    if rg[0] in ("near", "tiny"):
        return sum((1 << len(near_grid(L))) ** N for L in range(rg[-2], rg[-1] + 1))
    return sum(lattice.count_states(N, k, rg[1] if rg[0] == "bounded" else None)
               for k in range(rg[-2], rg[-1] + 1))


def regime_tasks(N, regimes, backends, nshards=NSHARDS, extra=None):
    """regimes: list of ('dense', kmin, kmax) / ('bounded', d, kmin, kmax) /
    ('near', Lmin, Lmax)."""
    tasks = []
    for be in backends:
        for rg in regimes:
            size = _regime_size(N, rg)
            ns = max(1, min(nshards, size // 64))
            for s in range(ns):
                t = {"backend": be, "N": N, "regime": list(rg), "shard": s,
                     "nshards": ns}
                if extra:
                    t.update(extra)
                tasks.append(t)
    return tasks


def iter_task_states(task):
    rg = task["regime"]
    if rg[0] == "near":
        return _iter_near(task["N"], rg[-2], rg[-1], task["shard"], task["nshards"])
    if rg[0] == "tiny":
        return ((k - 100, m) for k, m in _iter_near(task["N"], rg[-2], rg[-1], task["shard"],
                                                    task["nshards"]))
    if rg[0] == "far":
        return ((FAR_K + k, m) for k, m in lattice.iter_states(task["N"], rg[-2], rg[-1], None,
                                                               task["shard"], task["nshards"]))
    d = rg[1] if rg[0] == "bounded" else None
    return lattice.iter_states(task["N"], rg[-2], rg[-1], d,
                               task["shard"], task["nshards"])


def _iter_near(N, Lmin, Lmax, shard, nshards):
    """states of the near-tie regime: k is encoded as -L (negative clock)"""
    from itertools import product
    idx = 0
    for L in range(Lmin, Lmax + 1):
        npts = len(near_grid(L))
        ms = sorted(range(1 << npts), key=lambda m: (lattice.popcount(m), m))
        for combo in product(ms, repeat=N):
            if idx % nshards == shard:
                yield -L, combo
            idx += 1


def trains_edges(k, masks):
    """explicit float trains and edges of a state (lattice or near-tie grid)"""
    if k <= -100:
        G = tiny_grid(-k - 100)
        return [[G[i] for i in lattice.ticks(m)] for m in masks], [G[0], G[-1]]
    if k < 0:
        G = near_grid(-k)
        return [[G[i] for i in lattice.ticks(m)] for m in masks], [G[0], G[-1]]
    if k >= FAR_K:
        kk = k - FAR_K
        return [[FAR + t for t in lattice.times(m)] for m in masks], \
            [FAR + e for e in lattice.edges(kk)]
    return [lattice.times(m) for m in masks], lattice.edges(k)


def describe_regimes(regimes, N):
    out = []
    total = 0
    for rg in regimes:
        d = rg[1] if rg[0] == "bounded" else None
        n = _regime_size(N, rg)
        total += n
        e = {"regime": rg[0], "max_spikes_per_train": d, "N": N,
             "clock_min": rg[-2], "clock_max": rg[-1], "states": n}
        if rg[0] == "near":
            e["grid_points"] = {L: near_grid(L) for L in range(rg[-2], rg[-1] + 1)}
        out.append(e)
    return out, total


def train_class(sp, ts, te):
    """coarse class of one train, used in violation signatures so that a known
    finding names a specific input family."""
    n = len(sp)
    if n == 0:
        return "E"
    if n == 1:
        if sp[0] == ts:
            return "S@start"
        if sp[0] == te:
            return "S@end"
        return "S"
    c = "M"
    if sp[0] == ts:
        c += "@start"
    if sp[-1] == te:
        c += "@end"
    return c


def classes(trains, ts, te):
    return ",".join(train_class(sp, ts, te) for sp in trains)


def state_case(k, masks):
    """JSON-able description of a lattice state as explicit floats."""
    tr, ed = trains_edges(k, masks)
    return {"trains": tr, "edges": ed, "clock": k, "masks": list(masks)}


def nspikes(masks):
    return sum(lattice.popcount(m) for m in masks)


def run_states(task, fn, prop, states=None):
    """Generic driver: fn(result, k, masks, task) is the invariant; `states` overrides the
    state iterator of the task's regime (mixed-rate triples)."""
    r = Result()
    for k, masks in (states if states is not None else iter_task_states(task)):
        r.states += 1
        r.transitions += 1
        if lattice.nontrivial(masks):
            kk = (-k - 100) * 3 if k <= -100 else (
                -k * 3 if k < 0 else (k - FAR_K if k >= FAR_K else k))
            r.sigs.add(lattice.signature(kk, masks))
        try:
            fn(r, k, masks, task)
        except Exception as e:
            # the library returned something the invariant code cannot even read
            # (never happens on the unchanged tree: the exploration is deterministic)
            import traceback
            tb = traceback.format_exc().strip().splitlines()
            r.violation(prop, "harness.exception", task.get("backend", "py"),
                        "harness.exception/%s" % type(e).__name__,
                        dict(state_case(k, masks), harness_exception=True,
                             replay="task" if states is not None else "state", task={
                            kk: vv for kk, vv in task.items() if kk not in ("shard", "nshards")}),
                        "invariant evaluates", "%s: %s" % (type(e).__name__, e),
                        "evaluating the invariant raised: " + " | ".join(tb[-3:]),
                        (k, nspikes(masks)))
    return r


# ----------------------------------------------------------------------------
# mixed-rate triples: the regime in which MRTS='auto' matters for coincidences
# ----------------------------------------------------------------------------
def mixed_rate_triples(ks=(8, 10), d=2, shard=0, nshards=1):
    """Triples (a, b, c): a and b range over all trains with at most d spikes at
    clock k (long ISIs -> large pooled threshold), c over {empty, every tick,
    every second tick} (a dense train pulls the pooled threshold down).  On a
    lattice of spacing U the thresholded interpolation only changes a coincidence
    when MRTS/4 > U; the pair-wise and the pooled automatic thresholds straddle
    that value only for such mixed-rate lists."""
    idx = 0
    for k in ks:
        ms = lattice.masks_for(k, d)
        full = (1 << (k + 1)) - 1
        even = sum(1 << i for i in range(0, k + 1, 2))
        for c in (0, full, even):
            for a in ms:
                for b in ms:
                    if idx % nshards == shard:
                        yield k, (a, b, c)
                    idx += 1


def mixed_rate_count(ks=(8, 10), d=2):
    return sum(3 * len(lattice.masks_for(k, d)) ** 2 for k in ks)
