"""History explorer: breadth-first search over operation histories on live
function objects (DESIGN 2.3), plus the exact grid models of the three
function classes.

state   = canonical(object): tuples of exact floats
init    = every function of the operand menu
trans   = add(g) for g in menu | mul_scalar(c) | copy()
rebuild = live objects are rebuilt by replaying the history from the menu
dedupe  = by *model* state (exact Fractions): two histories that denote the same
          mathematical function must have produced the same implementation
          state - the merge is the order-independence check
"""
from fractions import Fraction
from itertools import combinations

from .common import T0, U

Fr = Fraction


# ----------------------------------------------------------------------------
# exact grid models.  Support [T0, T0+L*U], unit cells i = 0..L-1.
# ----------------------------------------------------------------------------
class ModelPWC(object):
    """breakpoint set (interior lattice indices) + value per unit cell"""
    kind = "pwc"

    def __init__(self, L, bps, cells):
        self.L = L
        self.bps = frozenset(bps)
        self.cells = tuple(Fr(v) for v in cells)

    def key(self):
        return ("pwc", self.L, tuple(sorted(self.bps)), self.cells)

    def add(self, g):
        return ModelPWC(self.L, self.bps | g.bps, [a + b for a, b in zip(self.cells, g.cells)])

    def mul(self, c):
        return ModelPWC(self.L, self.bps, [a * Fr(c) for a in self.cells])

    def expected(self):
        """(x, y) the implementation object must hold"""
        idx = [0] + sorted(self.bps) + [self.L]
        x = [T0 + i * U for i in idx]
        y = [float(self.cells[i]) for i in idx[:-1]]
        return x, (y,)

    def integral(self, a2=None, b2=None):
        """exact integral over [a2/2, b2/2] in lattice units (half-lattice ends) * U"""
        if a2 is None:
            a2, b2 = 0, 2 * self.L
        tot = Fr(0)
        for i, v in enumerate(self.cells):
            lo, hi = max(2 * i, a2), min(2 * i + 2, b2)
            if hi > lo:
                tot += v * Fr(hi - lo, 2)
        return tot * Fr(U)

    def value(self, t2):
        """value at half-lattice point t2/2 following the C10 evaluation rules"""
        if t2 == 0:
            return self.cells[0]
        if t2 == 2 * self.L:
            return self.cells[-1]
        if t2 % 2 == 0 and (t2 // 2) in self.bps:
            return (self.cells[t2 // 2 - 1] + self.cells[t2 // 2]) / 2
        return self.cells[t2 // 2] if t2 % 2 else self.cells[t2 // 2]


class ModelPWL(object):
    """breakpoint set + (left, right) value per unit cell"""
    kind = "pwl"

    def __init__(self, L, bps, cells):
        self.L = L
        self.bps = frozenset(bps)
        self.cells = tuple((Fr(a), Fr(b)) for a, b in cells)

    def key(self):
        return ("pwl", self.L, tuple(sorted(self.bps)), self.cells)

    def add(self, g):
        return ModelPWL(self.L, self.bps | g.bps,
                        [(a[0] + b[0], a[1] + b[1]) for a, b in zip(self.cells, g.cells)])

    def mul(self, c):
        return ModelPWL(self.L, self.bps, [(a * Fr(c), b * Fr(c)) for a, b in self.cells])

    def expected(self):
        idx = [0] + sorted(self.bps) + [self.L]
        x = [T0 + i * U for i in idx]
        y1 = [float(self.cells[i][0]) for i in idx[:-1]]
        y2 = [float(self.cells[i - 1][1]) for i in idx[1:]]
        return x, (y1, y2)

    def _at(self, i, frac):
        a, b = self.cells[i]
        return a + (b - a) * frac

    def integral(self, a2=None, b2=None):
        if a2 is None:
            a2, b2 = 0, 2 * self.L
        tot = Fr(0)
        for i in range(self.L):
            lo, hi = max(2 * i, a2), min(2 * i + 2, b2)
            if hi > lo:
                vl = self._at(i, Fr(lo - 2 * i, 2))
                vh = self._at(i, Fr(hi - 2 * i, 2))
                tot += (vl + vh) / 2 * Fr(hi - lo, 2)
        return tot * Fr(U)

    def value(self, t2):
        if t2 == 0:
            return self.cells[0][0]
        if t2 == 2 * self.L:
            return self.cells[-1][1]
        if t2 % 2 == 0 and (t2 // 2) in self.bps:
            return (self.cells[t2 // 2 - 1][1] + self.cells[t2 // 2][0]) / 2
        i = t2 // 2 if t2 % 2 else t2 // 2
        if t2 % 2 == 0:
            # interior lattice point that is not a breakpoint: function is continuous
            return self.cells[i][0]
        return self._at(i, Fr(1, 2))


class ModelDisc(object):
    """events on lattice points 0..L (edges included): {index: (y, mp)}"""
    kind = "disc"

    def __init__(self, L, events):
        self.L = L
        self.events = {int(k): (Fr(v[0]), Fr(v[1])) for k, v in events.items()}

    def key(self):
        return ("disc", self.L, tuple(sorted(self.events.items())))

    def add(self, g):
        ev = dict(self.events)
        for k, (y, m) in g.events.items():
            if k in ev:
                ev[k] = (ev[k][0] + y, ev[k][1] + m)
            else:
                ev[k] = (y, m)
        return ModelDisc(self.L, ev)

    def mul(self, c):
        return ModelDisc(self.L, {k: (y * Fr(c), m) for k, (y, m) in self.events.items()})

    def expected(self):
        ks = sorted(self.events)
        x = [T0] + [T0 + k * U for k in ks] + [T0 + self.L * U]
        y = [float(self.events[k][0]) for k in ks]
        mp = [float(self.events[k][1]) for k in ks]
        return x, (y, mp)

    def integral(self, a2=None, b2=None):
        """(sum y, sum mp) over events strictly inside (a2/2, b2/2); all events
        when no interval is given"""
        ys, ms = Fr(0), Fr(0)
        for k, (y, m) in self.events.items():
            if a2 is None or (a2 < 2 * k < b2):
                ys += y
                ms += m
        return ys, ms


# ----------------------------------------------------------------------------
# operand menus
# ----------------------------------------------------------------------------
def _subsets(n):
    for size in range(n + 1):
        for c in combinations(range(1, n + 1), size):
            yield c


PWC_PATTERNS = ["pos", "neg", "alt", "int"]
PWL_PATTERNS = ["ramp", "jump", "negslope"]
DISC_PATTERNS = ["ones", "mixed"]


def pwc_menu(L, patterns=PWC_PATTERNS):
    """all breakpoint subsets of the interior lattice points x value patterns.
    Returns list of (name, ctor_args, model)."""
    out = []
    for bps in _subsets(L - 1):
        idx = [0] + list(bps) + [L]
        x = [T0 + i * U for i in idx]
        npieces = len(idx) - 1
        for pat in patterns:
            if pat == "pos":
                y = [float(j + 1) for j in range(npieces)]
            elif pat == "neg":
                y = [-(j + 1) / 2.0 for j in range(npieces)]
            elif pat == "alt":
                y = [(j + 1) * (1.0 if j % 2 == 0 else -1.5) for j in range(npieces)]
            elif pat == "int":
                y = [int(j + 2) for j in range(npieces)]
            cells = []
            for j in range(npieces):
                cells += [y[j]] * (idx[j + 1] - idx[j])
            out.append(("pwc:%s:%s" % (",".join(map(str, bps)), pat), (x, y),
                        ModelPWC(L, bps, cells)))
    return out


def pwl_menu(L, patterns=PWL_PATTERNS):
    out = []
    for bps in _subsets(L - 1):
        idx = [0] + list(bps) + [L]
        x = [T0 + i * U for i in idx]
        npieces = len(idx) - 1
        for pat in patterns:
            y1, y2, cells = [], [], []
            for j in range(npieces):
                n = idx[j + 1] - idx[j]
                if pat == "ramp":          # continuous ramp, slope 1 per unit
                    a, s = float(idx[j]), 1.0
                elif pat == "jump":        # jumps at breakpoints, slope 1/2 per unit
                    a, s = float(j + 1) * (1.0 if j % 2 == 0 else -1.0), 0.5
                else:                      # negative slope
                    a, s = float(2 * j + 1), -0.25
                y1.append(a)
                y2.append(a + s * n)
                for u in range(n):
                    cells.append((a + s * u, a + s * (u + 1)))
            out.append(("pwl:%s:%s" % (",".join(map(str, bps)), pat), (x, y1, y2),
                        ModelPWL(L, bps, cells)))
    return out


def disc_menu(L, patterns=DISC_PATTERNS, max_events=None):
    """event subsets of the lattice points 0..L (edges included)"""
    out = []
    for size in range(L + 2):
        if max_events is not None and size > max_events:
            break
        for ks in combinations(range(L + 1), size):
            for pat in patterns:
                ev = {}
                for n, k in enumerate(ks):
                    if pat == "ones":
                        ev[k] = (float(n % 2), 1.0)
                    else:
                        ev[k] = (float((n % 3)), float(1 + (n + k) % 2))
                m = ModelDisc(L, ev)
                xs = [T0 + k * U for k in ks]
                ys = [ev[k][0] for k in ks]
                ms = [ev[k][1] for k in ks]
                # edge entries: copies of the first/last event (as the library builds them)
                if ks:
                    x = [T0] + xs + [T0 + L * U]
                    y = [ys[0]] + ys + [ys[-1]]
                    mp = [ms[0]] + ms + [ms[-1]]
                else:
                    x = [T0, T0 + L * U]
                    y = [1.0, 1.0]
                    mp = [1.0, 1.0]
                out.append(("disc:%s:%s" % (",".join(map(str, ks)), pat), (x, y, mp), m))
    return out


# ----------------------------------------------------------------------------
# live objects
# ----------------------------------------------------------------------------
def build(kind, args):
    import pyspike as spk
    cls = {"pwc": spk.PieceWiseConstFunc, "pwl": spk.PieceWiseLinFunc,
           "disc": spk.DiscreteFunc}[kind]
    return cls(*args)


def canon(kind, obj):
    import numpy as np
    if kind == "pwc":
        return (tuple(np.asarray(obj.x, float).tolist()), tuple(np.asarray(obj.y, float).tolist()))
    if kind == "pwl":
        return (tuple(np.asarray(obj.x, float).tolist()), tuple(np.asarray(obj.y1, float).tolist()),
                tuple(np.asarray(obj.y2, float).tolist()))
    return (tuple(np.asarray(obj.x, float).tolist()), tuple(np.asarray(obj.y, float).tolist()),
            tuple(np.asarray(obj.mp, float).tolist()))


def snapshot(kind, obj):
    """byte-level snapshot of the arrays of an operand"""
    names = {"pwc": ("x", "y"), "pwl": ("x", "y1", "y2"), "disc": ("x", "y", "mp")}[kind]
    import numpy as np
    return tuple((n, np.asarray(getattr(obj, n)).dtype.str, np.asarray(getattr(obj, n)).tobytes())
                 for n in names)


def replay_history(kind, menu_by_name, hist):
    """rebuild a live object (and its model) from an operation history
    hist = [init_name, (op, arg), ...]"""
    name = hist[0]
    args, model = menu_by_name[name]
    obj = build(kind, args)
    for op, arg in hist[1:]:
        if op == "add":
            gargs, gm = menu_by_name[arg]
            obj.add(build(kind, gargs))
            model = model.add(gm)
        elif op == "mul":
            obj.mul_scalar(arg)
            model = model.mul(arg)
        elif op == "copy":
            obj = obj.copy()
    return obj, model


# ----------------------------------------------------------------------------
# the explorer
# ----------------------------------------------------------------------------
def explore(kind, menu, init_names, add_names, scalars, depth, r, on_state, on_violation,
            with_copy=True):
    """Breadth-first search from every init function.

    on_state(obj, model, hist) is the invariant evaluated in every new state;
    on_violation(sub, hist, expected, observed, message) records a violation.
    Returns nothing; counts states/transitions/merges in r.
    """
    import collections
    by_name = {n: (a, m) for n, a, m in menu}
    seen = {}          # model key -> implementation canonical state (first history)
    frontier = collections.deque()
    for n in init_names:
        hist = [n]
        obj, model = replay_history(kind, by_name, hist)
        k = model.key()
        if k not in seen:
            seen[k] = (canon(kind, obj), hist)
            r.states += 1
            on_state(obj, model, hist)
            frontier.append(hist)
    while frontier:
        hist = frontier.popleft()
        if len(hist) - 1 >= depth:
            continue
        events = [("add", g) for g in add_names] + [("mul", c) for c in scalars]
        if with_copy:
            events.append(("copy", None))
        for ev in events:
            r.transitions += 1
            obj, model = replay_history(kind, by_name, hist)       # fresh live object
            before = canon(kind, obj)
            try:
                if ev[0] == "add":
                    gargs, gm = by_name[ev[1]]
                    g = build(kind, gargs)
                    snap = snapshot(kind, g)
                    obj.add(g)
                    if snapshot(kind, g) != snap:
                        on_violation("operand_modified", hist + [ev], "operand unchanged",
                                     canon(kind, g), "add() modified its operand")
                    nmodel = model.add(gm)
                    nobj = obj
                elif ev[0] == "mul":
                    obj.mul_scalar(ev[1])
                    nmodel = model.mul(ev[1])
                    nobj = obj
                else:
                    nobj = obj.copy()
                    nmodel = model
                    # copies are independent of their originals
                    nobj.mul_scalar(3.0)
                    gargs, gm = by_name[add_names[0]]
                    nobj.add(build(kind, gargs))
                    if canon(kind, obj) != before:
                        on_violation("copy_aliased", hist + [ev], before, canon(kind, obj),
                                     "modifying a copy changed the original")
                    nobj = obj.copy()
            except Exception as e:
                on_violation("exception", hist + [ev], "operation succeeds",
                             "%s: %s" % (type(e).__name__, e),
                             "%s raised on a valid function" % ev[0])
                continue
            nh = hist + [ev]
            k = nmodel.key()
            c = canon(kind, nobj)
            if k in seen:
                r.count("merges")
                first, fh = seen[k]
                if not _canon_close(first, c, kind):
                    on_violation("order_dependence", nh, first, c,
                                 "two histories denoting the same function (%r) produced "
                                 "different objects" % (fh,))
                continue
            seen[k] = (c, nh)
            r.states += 1
            on_state(nobj, nmodel, nh)
            frontier.append(nh)


def _canon_close(a, b, kind, tol=1e-10):
    if a[0] != b[0]:
        return False
    for u, v in zip(a[1:], b[1:]):
        if len(u) != len(v):
            return False
        if kind == "disc":
            # edge entries never count
            u, v = u[1:-1], v[1:-1]
        if any(abs(p - q) > tol for p, q in zip(u, v)):
            return False
    return True
