"""History explorer: breadth-first search over operation histories on live
function objects (DESIGN 2.3), plus the exact grid models of the three
function classes.

state   = canonical(object): tuples of exact floats
init    = every function of the operand menu
trans   = add(g) for g in menu | mul_scalar(c) | copy()
rebuild = live objects are rebuilt by replaying the history from the menu
dedupe  = by *model* state (exact Fractions): two histories that denote the same
          mathematical function must have produced the same implementation
          state - the merge is the order-independence check
"""
from fractions import Fraction
from itertools import combinations

from .common import T0, U

Fr = Fraction


# ----------------------------------------------------------------------------
# exact grid models.  A grid G is a strictly increasing list of exactly
# representable positions G[0..n]; cell i spans G[i]..G[i+1].  The regular grid
# reg(L) is the time lattice; near(L) adds positions 2^-30 next to lattice
# points so that near-ties (breakpoints that are close but not equal) are
# states of the exploration.  "Half-index" coordinates p2 = 0..2n address the
# grid points (even) and the cell midpoints (odd).
# ----------------------------------------------------------------------------
DELTA = 2.0 ** -30


def reg(L):
    return [T0 + i * U for i in range(L + 1)]


TINY = 2.0 ** -50


def near(L, delta=DELTA):
    """lattice 0..L plus near-tie companions of the interior lattice points"""
    g = [T0]
    for i in range(1, L):
        t = T0 + i * U
        g += ([t - delta, t] if i % 2 == 0 else [t, t + delta])
    g.append(T0 + L * U)
    return g


def tiny(L):
    """near-tie grid with companions 2^-50 (a few ulp) away: catches absolute tolerances
    down to ~1e-15"""
    return near(L, TINY)


def far(L):
    """the lattice moved far away from the origin (2^27): exact, but absolute times carry
    ~27 bits more than their differences, so that formulas in absolute time (slope*t +
    intercept, sums of x*y) lose what formulas in time differences keep"""
    return [2.0 ** 27 + T0 + i * U for i in range(L + 1)]


def grid_of(spec):
    return {"reg": reg, "near": near, "far": far, "tiny": tiny}[spec[0]](spec[1])


def as_grid(L_or_G):
    if isinstance(L_or_G, int):
        return reg(L_or_G)
    return list(L_or_G)


def pos(G, p2):
    """exact position of half-index p2"""
    if p2 % 2 == 0:
        return Fr(G[p2 // 2])
    return (Fr(G[p2 // 2]) + Fr(G[p2 // 2 + 1])) / 2


def fpos(G, p2):
    return float(pos(G, p2))


class ModelPWC(object):
    """breakpoint set (interior grid indices) + value per grid cell"""
    kind = "pwc"

    def __init__(self, G, bps, cells):
        self.G = G
        self.n = len(G) - 1
        self.bps = frozenset(bps)
        self.cells = tuple(Fr(v) for v in cells)

    def key(self):
        return ("pwc", tuple(self.G), tuple(sorted(self.bps)), self.cells)

    def add(self, g):
        return ModelPWC(self.G, self.bps | g.bps, [a + b for a, b in zip(self.cells, g.cells)])

    def mul(self, c):
        return ModelPWC(self.G, self.bps, [a * Fr(c) for a in self.cells])

    def expected(self):
        """(x, y) the implementation object must hold"""
        idx = [0] + sorted(self.bps) + [self.n]
        x = [float(self.G[i]) for i in idx]
        y = [float(self.cells[i]) for i in idx[:-1]]
        return x, (y,)

    def integral(self, a2=None, b2=None):
        """exact integral between the half-index positions a2 < b2"""
        if a2 is None:
            a2, b2 = 0, 2 * self.n
        lo_t, hi_t = pos(self.G, a2), pos(self.G, b2)
        tot = Fr(0)
        for i, v in enumerate(self.cells):
            lo, hi = max(Fr(self.G[i]), lo_t), min(Fr(self.G[i + 1]), hi_t)
            if hi > lo:
                tot += v * (hi - lo)
        return tot

    def value(self, t2):
        """value at half-index position t2 following the C10 evaluation rules"""
        if t2 == 0:
            return self.cells[0]
        if t2 == 2 * self.n:
            return self.cells[-1]
        if t2 % 2 == 0 and (t2 // 2) in self.bps:
            return (self.cells[t2 // 2 - 1] + self.cells[t2 // 2]) / 2
        return self.cells[t2 // 2]


class ModelPWL(object):
    """breakpoint set + (left, right) value per grid cell"""
    kind = "pwl"

    def __init__(self, G, bps, cells):
        self.G = G
        self.n = len(G) - 1
        self.bps = frozenset(bps)
        self.cells = tuple((Fr(a), Fr(b)) for a, b in cells)

    def key(self):
        return ("pwl", tuple(self.G), tuple(sorted(self.bps)), self.cells)

    def add(self, g):
        return ModelPWL(self.G, self.bps | g.bps,
                        [(a[0] + b[0], a[1] + b[1]) for a, b in zip(self.cells, g.cells)])

    def mul(self, c):
        return ModelPWL(self.G, self.bps, [(a * Fr(c), b * Fr(c)) for a, b in self.cells])

    def expected(self):
        idx = [0] + sorted(self.bps) + [self.n]
        x = [float(self.G[i]) for i in idx]
        y1 = [float(self.cells[i][0]) for i in idx[:-1]]
        y2 = [float(self.cells[i - 1][1]) for i in idx[1:]]
        return x, (y1, y2)

    def _at(self, i, t):
        a, b = self.cells[i]
        return a + (b - a) * (t - Fr(self.G[i])) / (Fr(self.G[i + 1]) - Fr(self.G[i]))

    def integral(self, a2=None, b2=None):
        if a2 is None:
            a2, b2 = 0, 2 * self.n
        lo_t, hi_t = pos(self.G, a2), pos(self.G, b2)
        tot = Fr(0)
        for i in range(self.n):
            lo, hi = max(Fr(self.G[i]), lo_t), min(Fr(self.G[i + 1]), hi_t)
            if hi > lo:
                tot += (self._at(i, lo) + self._at(i, hi)) / 2 * (hi - lo)
        return tot

    def value(self, t2):
        if t2 == 0:
            return self.cells[0][0]
        if t2 == 2 * self.n:
            return self.cells[-1][1]
        if t2 % 2 == 0 and (t2 // 2) in self.bps:
            return (self.cells[t2 // 2 - 1][1] + self.cells[t2 // 2][0]) / 2
        if t2 % 2 == 0:
            # interior grid point that is not a breakpoint: function is continuous there
            return self.cells[t2 // 2][0]
        return self._at(t2 // 2, pos(self.G, t2))


class ModelDisc(object):
    """events on grid points 0..n (edges included): {index: (y, mp)}"""
    kind = "disc"

    def __init__(self, G, events):
        self.G = G
        self.n = len(G) - 1
        self.events = {int(k): (Fr(v[0]), Fr(v[1])) for k, v in events.items()}

    def key(self):
        return ("disc", tuple(self.G), tuple(sorted(self.events.items())))

    def add(self, g):
        ev = dict(self.events)
        for k, (y, m) in g.events.items():
            if k in ev:
                ev[k] = (ev[k][0] + y, ev[k][1] + m)
            else:
                ev[k] = (y, m)
        return ModelDisc(self.G, ev)

    def mul(self, c):
        return ModelDisc(self.G, {k: (y * Fr(c), m) for k, (y, m) in self.events.items()})

    def expected(self):
        ks = sorted(self.events)
        x = [float(self.G[0])] + [float(self.G[k]) for k in ks] + [float(self.G[-1])]
        y = [float(self.events[k][0]) for k in ks]
        mp = [float(self.events[k][1]) for k in ks]
        return x, (y, mp)

    def integral(self, a2=None, b2=None):
        """(sum y, sum mp) over events strictly inside the half-index positions
        (a2, b2); all events when no interval is given"""
        ys, ms = Fr(0), Fr(0)
        for k, (y, m) in self.events.items():
            if a2 is None or (a2 < 2 * k < b2):
                ys += y
                ms += m
        return ys, ms


# ----------------------------------------------------------------------------
# operand menus
# ----------------------------------------------------------------------------
def _subsets(n):
    for size in range(n + 1):
        for c in combinations(range(1, n + 1), size):
            yield c


PWC_PATTERNS = ["pos", "neg", "alt", "int"]
PWL_PATTERNS = ["ramp", "jump", "negslope", "thirds"]
DISC_PATTERNS = ["ones", "mixed", "heavy"]


def pwc_menu(L_or_G, patterns=PWC_PATTERNS):
    """all breakpoint subsets of the interior grid points x value patterns.
    Returns list of (name, ctor_args, model)."""
    G = as_grid(L_or_G)
    n = len(G) - 1
    out = []
    for bps in _subsets(n - 1):
        idx = [0] + list(bps) + [n]
        x = [G[i] for i in idx]
        npieces = len(idx) - 1
        for pat in patterns:
            if pat == "pos":
                y = [float(j + 1) for j in range(npieces)]
            elif pat == "neg":
                y = [-(j + 1) / 2.0 for j in range(npieces)]
            elif pat == "alt":
                y = [(j + 1) * (1.0 if j % 2 == 0 else -1.5) for j in range(npieces)]
            elif pat == "int":
                y = [int(j + 2) for j in range(npieces)]
            cells = []
            for j in range(npieces):
                cells += [y[j]] * (idx[j + 1] - idx[j])
            out.append(("pwc:%s:%s" % (",".join(map(str, bps)), pat), (x, y),
                        ModelPWC(G, bps, cells)))
    return out


def pwl_menu(L_or_G, patterns=PWL_PATTERNS):
    G = as_grid(L_or_G)
    n = len(G) - 1
    out = []
    for bps in _subsets(n - 1):
        idx = [0] + list(bps) + [n]
        x = [G[i] for i in idx]
        npieces = len(idx) - 1
        for pat in patterns:
            y1, y2, cells = [], [], []
            for j in range(npieces):
                width = (G[idx[j + 1]] - G[idx[j]]) / U      # piece width in lattice units
                if pat == "ramp":          # continuous ramp, slope 1 per unit
                    a, e = (G[idx[j]] - G[0]) / U, (G[idx[j + 1]] - G[0]) / U
                elif pat == "jump":        # jumps at breakpoints, slope 1/2 per unit
                    a = float(j + 1) * (1.0 if j % 2 == 0 else -1.0)
                    e = a + 0.5 * width
                elif pat == "negslope":    # negative slope
                    a = float(2 * j + 1)
                    e = a - 0.25 * width
                else:                      # "thirds": values that are not dyadic
                    a = (j + 1) / 3.0
                    e = a + width / 3.0
                y1.append(a)
                y2.append(e)
                # the model interpolates exactly between the float end values actually passed
                fa, fe = Fr(a), Fr(e)
                x0, x1 = Fr(G[idx[j]]), Fr(G[idx[j + 1]])
                at = lambda t: fa + (fe - fa) * (Fr(t) - x0) / (x1 - x0)
                for u in range(idx[j], idx[j + 1]):
                    cells.append((at(G[u]), at(G[u + 1])))
            out.append(("pwl:%s:%s" % (",".join(map(str, bps)), pat), (x, y1, y2),
                        ModelPWL(G, bps, cells)))
    return out


def disc_menu(L_or_G, patterns=DISC_PATTERNS, max_events=None):
    """event subsets of the grid points 0..n (edges included)"""
    G = as_grid(L_or_G)
    n = len(G) - 1
    out = []
    for size in range(n + 2):
        if max_events is not None and size > max_events:
            break
        for ks in combinations(range(n + 1), size):
            for pat in patterns:
                ev = {}
                for m_, k in enumerate(ks):
                    if pat == "ones":
                        ev[k] = (float(m_ % 2), 1.0)
                    elif pat == "mixed":
                        ev[k] = (float((m_ % 3)), float(1 + (m_ + k) % 2))
                    else:   # multiplicities up to 4, larger than a smoothing window's worth
                        ev[k] = (float((2 * m_ + k) % 5), float(1 + (2 * m_ + k) % 4))
                m = ModelDisc(G, ev)
                xs = [G[k] for k in ks]
                ys = [ev[k][0] for k in ks]
                ms = [ev[k][1] for k in ks]
                # edge entries: copies of the first/last event (as the library builds them)
                if ks:
                    x = [G[0]] + xs + [G[-1]]
                    y = [ys[0]] + ys + [ys[-1]]
                    mp = [ms[0]] + ms + [ms[-1]]
                else:
                    x = [G[0], G[-1]]
                    y = [1.0, 1.0]
                    mp = [1.0, 1.0]
                out.append(("disc:%s:%s" % (",".join(map(str, ks)), pat), (x, y, mp), m))
    return out


# ----------------------------------------------------------------------------
# live objects
# ----------------------------------------------------------------------------
def build(kind, args):
    import pyspike as spk
    cls = {"pwc": spk.PieceWiseConstFunc, "pwl": spk.PieceWiseLinFunc,
           "disc": spk.DiscreteFunc}[kind]
    return cls(*args)


def canon(kind, obj):
    import numpy as np
    if kind == "pwc":
        return (tuple(np.asarray(obj.x, float).tolist()), tuple(np.asarray(obj.y, float).tolist()))
    if kind == "pwl":
        return (tuple(np.asarray(obj.x, float).tolist()), tuple(np.asarray(obj.y1, float).tolist()),
                tuple(np.asarray(obj.y2, float).tolist()))
    return (tuple(np.asarray(obj.x, float).tolist()), tuple(np.asarray(obj.y, float).tolist()),
            tuple(np.asarray(obj.mp, float).tolist()))


def snapshot(kind, obj):
    """byte-level snapshot of the arrays of an operand"""
    names = {"pwc": ("x", "y"), "pwl": ("x", "y1", "y2"), "disc": ("x", "y", "mp")}[kind]
    import numpy as np
    return tuple((n, np.asarray(getattr(obj, n)).dtype.str, np.asarray(getattr(obj, n)).tobytes())
                 for n in names)


def replay_history(kind, menu_by_name, hist, operands=None):
    """rebuild a live object (and its model) from an operation history
    hist = [init_name, (op, arg), ...]; when `operands` is a list, every operand object that
    was added on the way is kept alive in it together with its byte snapshot"""
    name = hist[0]
    args, model = menu_by_name[name]
    obj = build(kind, args)
    for op, arg in hist[1:]:
        if op == "add":
            gargs, gm = menu_by_name[arg]
            g = build(kind, gargs)
            if operands is not None:
                operands.append((arg, g, snapshot(kind, g)))
            obj.add(g)
            model = model.add(gm)
        elif op == "mul":
            obj.mul_scalar(arg)
            model = model.mul(arg)
        elif op == "copy":
            obj = obj.copy()
    return obj, model


# ----------------------------------------------------------------------------
# the explorer
# ----------------------------------------------------------------------------
def do_transition(kind, by_name, hist, ev, probe_name):
    """Rebuild the live object for `hist`, apply event `ev` with all
    per-transition checks.  Returns (new_obj, new_model, violations) where
    violations = [(sub, expected, observed, message)]; new_obj is None when the
    operation raised."""
    viol = []
    operands = []                    # operands of earlier adds, kept alive with their snapshots
    obj, model = replay_history(kind, by_name, hist, operands)       # fresh live object
    before = canon(kind, obj)

    def earlier_operands_intact(what):
        for name, g, snap in operands:
            if snapshot(kind, g) != snap:
                viol.append(("operand_modified_later", "operand %s unchanged" % name,
                             canon(kind, g), "%s on the receiver modified the operand of an "
                             "earlier add (receiver and operand share storage)" % what))
                return
    try:
        # read-only queries before the event: results computed (and possibly cached) now
        # must not leak into the state after the event
        obj.integral()
        obj.avrg()
        if canon(kind, obj) != before:
            viol.append(("read_modifies", before, canon(kind, obj),
                         "integral()/avrg() modified the function"))
        if ev[0] == "add":
            gargs, gm = by_name[ev[1]]
            g = build(kind, gargs)
            snap = snapshot(kind, g)
            obj.add(g)
            if snapshot(kind, g) != snap:
                viol.append(("operand_modified", "operand unchanged", canon(kind, g),
                             "add() modified its operand"))
            earlier_operands_intact("add()")
            # the sum must not share storage with the operand: scaling the operand afterwards
            # (a throw-away object from here on) must leave the receiver alone
            after = canon(kind, obj)
            g.mul_scalar(3.0)
            if canon(kind, obj) != after:
                viol.append(("operand_aliased", after, canon(kind, obj),
                             "modifying the operand after add() changed the receiver"))
            return obj, model.add(gm), viol
        if ev[0] == "mul":
            obj.mul_scalar(ev[1])
            earlier_operands_intact("mul_scalar()")
            return obj, model.mul(ev[1]), viol
        # copy: copies are independent of their originals, in both directions
        c1 = obj.copy()
        c1.mul_scalar(3.0)
        gargs, gm = by_name[probe_name]
        c1.add(build(kind, gargs))
        if canon(kind, obj) != before:
            viol.append(("copy_aliased", before, canon(kind, obj),
                         "modifying a copy changed the original"))
        c2 = obj.copy()
        keep = canon(kind, c2)
        obj.mul_scalar(3.0)
        if canon(kind, c2) != keep:
            viol.append(("copy_aliased", keep, canon(kind, c2),
                         "modifying the original changed its copy"))
        return c2, model, viol
    except Exception as e:
        viol.append(("exception", "operation succeeds", "%s: %s" % (type(e).__name__, e),
                     "%s raised on a valid function" % ev[0]))
        return None, None, viol


def explore(kind, menu, init_names, add_names, scalars, depth, r, on_state, on_violation,
            with_copy=True):
    """Breadth-first search from every init function.

    on_state(obj, model, hist) is the invariant evaluated in every new state;
    on_violation(sub, hist, expected, observed, message) records a violation.
    Counts states/transitions/merges in r.
    """
    import collections
    by_name = {n: (a, m) for n, a, m in menu}
    seen = {}          # model key -> implementation canonical state (first history)
    frontier = collections.deque()
    for n in init_names:
        hist = [n]
        obj, model = replay_history(kind, by_name, hist)
        k = model.key()
        if k not in seen:
            seen[k] = (canon(kind, obj), hist)
            r.states += 1
            on_state(obj, model, hist)
            frontier.append(hist)
    events = [("add", g) for g in add_names] + [("mul", c) for c in scalars]
    if with_copy:
        events.append(("copy", None))
    while frontier:
        hist = frontier.popleft()
        if len(hist) - 1 >= depth:
            continue
        for ev in events:
            r.transitions += 1
            nobj, nmodel, viol = do_transition(kind, by_name, hist, ev, add_names[0])
            nh = hist + [ev]
            for sub, exp, obs, msg in viol:
                on_violation(sub, nh, exp, obs, msg)
            if nobj is None:
                continue
            k = nmodel.key()
            c = canon(kind, nobj)
            if k in seen:
                r.count("merges")
                first, fh = seen[k]
                if not _canon_close(first, c, kind):
                    on_violation("order_dependence", {"history": nh, "other_history": fh},
                                 first, c, "two histories denoting the same function "
                                 "produced different objects")
                continue
            seen[k] = (c, nh)
            r.states += 1
            on_state(nobj, nmodel, nh)
            frontier.append(nh)


def norm_hist(h):
    return [tuple(e) if isinstance(e, list) else e for e in h]


def replay_checks(kind, menu, hist, probe_name, state_check):
    """Replay one history step by step with every per-transition and per-state
    check; returns [(sub, expected, observed, message)]."""
    by_name = {n: (a, m) for n, a, m in menu}
    hist = norm_hist(hist)
    out = []
    obj, model = replay_history(kind, by_name, hist[:1])
    bad = state_check(obj, model)
    if bad:
        out.append(bad)
    for i in range(1, len(hist)):
        nobj, nmodel, viol = do_transition(kind, by_name, hist[:i], hist[i], probe_name)
        out.extend(viol)
        if nobj is None:
            break
        bad = state_check(nobj, nmodel)
        if bad:
            out.append(bad)
    return out


def _canon_close(a, b, kind, tol=1e-10):
    if a[0] != b[0]:
        return False
    for u, v in zip(a[1:], b[1:]):
        if len(u) != len(v):
            return False
        if kind == "disc":
            # edge entries never count
            u, v = u[1:-1], v[1:-1]
        if any(abs(p - q) > tol for p, q in zip(u, v)):
            return False
    return True
