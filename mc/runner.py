"""Runner: shards a check over the cores, merges results, applies the
known-findings protocol, validates replays, writes evidence (DESIGN 2.7-2.10)."""
import argparse
import importlib
import json
import os
import random
import subprocess
import sys
import time
import traceback
from concurrent.futures import ProcessPoolExecutor, as_completed
import multiprocessing as mp

from . import common

MAX_PER_SIG = 3           # violation records kept per signature and task
MAX_REPORT = 12           # distinct signatures reported at most
REPLAY_VALIDATE = 3       # new violations replayed twice in fresh processes


# ----------------------------------------------------------------------------
# result container used by the check modules (runs in the workers)
# ----------------------------------------------------------------------------
class Result(object):
    def __init__(self):
        self.states = 0
        self.transitions = 0
        self.evaluations = 0
        self.traces = 0
        self.sigs = set()
        self.viol = {}          # signature -> [records]
        self.viol_count = {}    # signature -> total
        self.samples = []
        self.counters = {}
        self.skipped = None
        self.outcomes = set()

    def count(self, key, n=1):
        self.counters[key] = self.counters.get(key, 0) + n

    def violation(self, prop, sub, backend, signature, case, expected, observed,
                  message, rank=()):
        self.viol_count[signature] = self.viol_count.get(signature, 0) + 1
        lst = self.viol.setdefault(signature, [])
        if len(lst) < MAX_PER_SIG:
            lst.append({
                "property": prop, "check": sub, "backend": backend,
                "signature": signature, "case": common.jsonable(case),
                "expected": common.jsonable(expected),
                "observed": common.jsonable(observed),
                "message": message, "rank": list(rank),
            })

    def sample(self, case, every=1):
        if len(self.samples) < 4:
            self.samples.append(common.jsonable(case))

    def pack(self):
        return {
            "states": self.states, "transitions": self.transitions,
            "evaluations": self.evaluations, "traces": self.traces,
            "sigs": self.sigs, "viol": self.viol, "viol_count": self.viol_count,
            "samples": self.samples, "counters": self.counters,
            "skipped": self.skipped, "outcomes": self.outcomes,
        }


# ----------------------------------------------------------------------------
# worker side
# ----------------------------------------------------------------------------
def _worker_init(repo):
    os.environ["VERIF_REPO"] = repo
    common.REPO = repo
    from . import backend
    backend.setup(repo)


def _run_task(modname, task):
    from . import backend
    mod = importlib.import_module(modname)
    be = task.get("backend", "py")
    t0 = time.time()
    if be == "pyx" and not backend.render_pyx():
        r = Result()
        r.skipped = "pyx-model unavailable: %s" % backend.pyx_error()
        out = r.pack()
    else:
        backend.use("py" if be == "both" else be)
        with common.quiet():
            r = mod.run_task(task)
        out = r.pack()
        for lst in out["viol"].values():
            for v in lst:
                v["task"] = common.jsonable(task)
    out["wall"] = time.time() - t0
    out["backend"] = be
    return out


# ----------------------------------------------------------------------------
# parent side
# ----------------------------------------------------------------------------
def load_known():
    path = os.path.join(common.VERIF, "known_findings.json")
    if not os.path.exists(path):
        return []
    with open(path) as f:
        return json.load(f).get("findings", [])


def _replay_once(check_id, path, repo):
    env = dict(os.environ)
    env["VERIF_REPO"] = repo
    p = subprocess.run([sys.executable, os.path.join(common.VERIF, "check"),
                        check_id, "--replay", path, "--json"],
                       capture_output=True, text=True, env=env, timeout=600)
    lines = [l for l in p.stdout.splitlines() if l.startswith("REPLAY-JSON ")]
    if not lines:
        return None, p.stdout[-2000:] + p.stderr[-2000:]
    return json.loads(lines[-1][len("REPLAY-JSON "):]), None


def run_check(check_id, tier, repo, jobs, seed):
    modname = "checks." + check_id.lower()
    mod = importlib.import_module(modname)
    t_start = time.time()
    plan = mod.plan(tier)
    tasks = list(plan["tasks"])
    rnd = random.Random(seed)
    rnd.shuffle(tasks)               # order only; the explored set is fixed
    merged = Result()
    per_backend = {}
    per_regime = {}
    skipped = []
    walls = []
    errors = []
    ctx = mp.get_context("fork")
    with ProcessPoolExecutor(max_workers=jobs, mp_context=ctx,
                             initializer=_worker_init, initargs=(repo,)) as ex:
        futs = {ex.submit(_run_task, modname, t): t for t in tasks}
        for fu in as_completed(futs):
            t = futs[fu]
            try:
                r = fu.result()
            except Exception as e:
                errors.append("task %r failed: %s\n%s" % (t, e, traceback.format_exc()))
                continue
            if r["skipped"]:
                if r["skipped"] not in skipped:
                    skipped.append(r["skipped"])
                continue
            walls.append(r["wall"])
            merged.states += r["states"]
            merged.transitions += r["transitions"]
            merged.evaluations += r["evaluations"]
            merged.traces += r["traces"]
            merged.sigs |= r["sigs"]
            merged.outcomes |= r["outcomes"]
            for k, v in r["counters"].items():
                merged.counters[k] = merged.counters.get(k, 0) + v
            label = common.dumps({k: v for k, v in t.items()
                                  if k not in ("backend", "shard", "nshards")})
            pr = per_regime.setdefault(label, {"tasks": 0, "states": 0, "evaluations": 0,
                                               "_sigs": set(), "_out": set()})
            pr["tasks"] += 1
            pr["states"] += r["states"]
            pr["evaluations"] += r["evaluations"]
            pr["_sigs"] |= r["sigs"]
            pr["_out"] |= r["outcomes"]
            pb = per_backend.setdefault(r["backend"], {"tasks": 0, "evaluations": 0})
            pb["tasks"] += 1
            pb["evaluations"] += r["evaluations"]
            for sig, lst in r["viol"].items():
                merged.viol.setdefault(sig, []).extend(lst)
            for sig, n in r["viol_count"].items():
                merged.viol_count[sig] = merged.viol_count.get(sig, 0) + n
            merged.samples.extend(r["samples"])
    if errors:
        print("HARNESS-ERROR in %s:" % check_id)
        for e in errors[:3]:
            print(e)
        return 2

    # ---------------- violations: minimal record per signature ---------------
    known = [k for k in load_known() if k.get("property") == check_id]
    open_sigs = {k["signature"]: k for k in known if k.get("status") == "open"}
    os.makedirs(os.path.join(common.VERIF, "replays"), exist_ok=True)
    new_viol = []
    known_hits = []
    for sig in sorted(merged.viol):
        recs = sorted(merged.viol[sig], key=lambda r: (r["rank"], common.dumps(r["case"])))
        rec = recs[0]
        rec["total_for_signature"] = merged.viol_count[sig]
        if sig in open_sigs:
            known_hits.append((sig, rec))
        else:
            new_viol.append((sig, rec))
    exit_code = 0
    for sig, rec in known_hits:
        print("KNOWN-FINDING: property=%s %s [signature=%s, %d cases this run]"
              % (check_id, open_sigs[sig]["what"], sig, merged.viol_count[sig]))
    reported = 0
    nondeterministic = []
    for sig, rec in new_viol[:MAX_REPORT]:
        h = "%016x" % common.stable_hash((sig, rec["case"]))
        path = os.path.join(common.VERIF, "replays", "%s-%s.json" % (check_id, h))
        with open(path, "w") as f:
            json.dump(rec, f, indent=1, sort_keys=True)
        if reported < REPLAY_VALIDATE:
            a, erra = _replay_once(check_id, path, repo)
            b, errb = _replay_once(check_id, path, repo)
            if a is None or b is None or a != b or not a.get("violations"):
                # the single case does not reproduce from a fresh process: the failure may
                # depend on the calls made before it (state carried over inside the library).
                # Fall back to replaying the whole task shard, which is deterministic.
                rec["replay_mode"] = "task"
                with open(path, "w") as f:
                    json.dump(rec, f, indent=1, sort_keys=True)
                a2, erra2 = _replay_once(check_id, path, repo)
                b2, errb2 = _replay_once(check_id, path, repo)
                if a2 is None or b2 is None or a2 != b2 or not a2.get("violations"):
                    nondeterministic.append((path, a, b, erra or errb or erra2 or errb2))
                    continue
                print("NOTE: violation below depends on the call history; its replay file "
                      "re-runs the whole task shard")
        print("VIOLATION property=%s replay=%s" % (check_id, path))
        print("  check=%s backend=%s signature=%s cases=%d"
              % (rec["check"], rec["backend"], sig, merged.viol_count[sig]))
        print("  %s" % rec["message"])
        print("  case=%s" % common.dumps(rec["case"])[:600])
        print("  expected=%s" % common.dumps(rec["expected"])[:400])
        print("  observed=%s" % common.dumps(rec["observed"])[:400])
        reported += 1
        exit_code = 1
    if len(new_viol) > MAX_REPORT:
        print("  ... %d further violation signatures not printed" % (len(new_viol) - MAX_REPORT))
    if nondeterministic:
        print("HARNESS-ERROR: %d violation(s) did not replay identically twice "
              "in a fresh process; not reported as violations" % len(nondeterministic))
        for path, a, b, err in nondeterministic[:3]:
            print("  %s\n   first=%s\n   second=%s\n   %s" % (path, a, b, err))
        if exit_code == 0:
            exit_code = 2

    # ------------------------------ evidence ---------------------------------
    wall = time.time() - t_start
    samples = merged.samples
    rnd.shuffle(samples)
    coverage = {
        "states": merged.states,
        "transitions": merged.transitions,
        "evaluations": merged.evaluations,
        "traces_validated_against_impl": merged.traces,
        "distinct_nontrivial": len(merged.sigs),
        "distinct_outcomes": len(merged.outcomes),
        "rule": plan.get("rule", ""),
        "samples": samples[:5] if samples else [],
        "exhaustive": bool(plan.get("exhaustive", True)) and not skipped,
        "bounds": plan.get("bounds", {}),
        "per_backend": per_backend,
        # non-vacuity per explored regime (task descriptor without backend / shard): how many
        # distinct non-trivial cases and distinct observed outcomes that regime produced
        "per_regime": [{"regime": json.loads(k), "tasks": v["tasks"], "states": v["states"],
                        "evaluations": v["evaluations"],
                        "distinct_nontrivial": len(v["_sigs"]),
                        "distinct_outcomes": len(v["_out"])}
                       for k, v in sorted(per_regime.items())],
        "counters": merged.counters,
        "skipped_configurations": skipped,
        "violation_signatures": {s: merged.viol_count[s] for s in merged.viol_count},
        "known_findings_matched": [s for s, _ in known_hits],
        "explanation": plan.get("explanation", ""),
    }
    ev = {
        "property_id": check_id, "tier": tier, "seed": seed,
        "level": getattr(mod, "LEVEL", "model_checking"),
        "coverage": coverage,
        "assumptions": list(plan.get("assumptions", [])) + (
            ["pyx-model configuration skipped: " + s for s in skipped]),
        "wall_s": round(wall, 2),
        "violations": len(new_viol),
    }
    # evidence/ only ever describes runs against /repo itself; runs against a
    # scratch tree (VERIF_REPO, used for seeded changes) go to evidence-scratch/
    evdir = "evidence" if os.path.realpath(repo) == "/repo" else "evidence-scratch"
    os.makedirs(os.path.join(common.VERIF, evdir), exist_ok=True)
    with open(os.path.join(common.VERIF, evdir, check_id + ".json"), "w") as f:
        json.dump(common.jsonable(ev), f, indent=1, sort_keys=True)
    for s in skipped:
        print("NOTE: %s" % s)
    print("%s tier=%s states=%d transitions=%d evaluations=%d traces=%d "
          "distinct=%d violations=%d known=%d wall=%.1fs"
          % (check_id, tier, merged.states, merged.transitions, merged.evaluations,
             merged.traces, len(merged.sigs), len(new_viol), len(known_hits), wall))
    return exit_code


def cid_of(mod):
    return getattr(mod, "ID", "?")


def run_replay(check_id, path, repo, as_json):
    from . import backend
    backend.setup(repo)
    mod = importlib.import_module("checks." + check_id.lower())
    with open(path) as f:
        rec = json.load(f)
    be = rec.get("backend", "py")
    if be == "pyx" and not backend.render_pyx():
        print("pyx-model unavailable: %s" % backend.pyx_error())
        return 2
    backend.use("py" if be == "both" else be)
    if rec.get("replay_mode") == "task" or rec.get("case", {}).get("replay") == "task":
        task = rec["task"]
        with common.quiet():
            rr = mod.run_task(task)
        r = Result()
        for sig, lst in rr.viol.items():
            if sig == rec["signature"]:
                # keep only what identifies the failure, not the (history dependent) details
                r.viol[sig] = [dict(lst[0], expected="see task replay", observed="see task replay")]
    elif rec.get("case", {}).get("harness_exception"):
        # re-run the recorded state through the check's own driver
        task = dict(rec["case"]["task"], shard=0, nshards=1, backend=be)
        ck = rec["case"]["clock"]
        task["regime"] = ["tiny", -ck - 100, -ck - 100] if ck <= -100 else ["near", -ck, -ck] if ck < 0 else (
            ["far", ck - 1000, ck - 1000] if ck >= 1000 else ["dense", ck, ck])
        from . import pairs as _pairs, lattice as _lat
        r = Result()
        with common.quiet():
            rr = _pairs.run_states(dict(task, N=len(rec["case"]["masks"])),
                                   lambda r_, k_, m_, t_: mod.check_state(r_, k_, m_, t_)
                                   if tuple(m_) == tuple(rec["case"]["masks"]) else None, cid_of(mod))
        r = rr
    else:
        with common.quiet():
            try:
                r = mod.replay(rec)
            except Exception as e:
                r = Result()
                r.violation(rec["property"], "harness.exception", be,
                            "harness.exception/%s" % type(e).__name__, rec["case"],
                            "invariant evaluates", "%s: %s" % (type(e).__name__, e),
                            "evaluating the invariant raised")
    viol = []
    for sig in sorted(r.viol):
        for v in r.viol[sig]:
            viol.append({"signature": sig, "check": v["check"],
                         "expected": v["expected"], "observed": v["observed"],
                         "message": v["message"]})
    if as_json:
        print("REPLAY-JSON " + json.dumps({"violations": viol}, sort_keys=True))
    else:
        if not viol:
            print("replay of %s: property holds on this case" % path)
        for v in viol:
            print("VIOLATION property=%s replay=%s" % (check_id, path))
            print("  check=%s signature=%s" % (v["check"], v["signature"]))
            print("  %s" % v["message"])
            print("  expected=%s" % json.dumps(v["expected"])[:600])
            print("  observed=%s" % json.dumps(v["observed"])[:600])
    return 1 if viol else 0


def selftest(repo):
    """setup_cmd: the harness imports the tree under test, renders the .pyx
    files and explores a 2-tick lattice in both configurations."""
    from . import backend, lattice
    import importlib
    backend.setup(repo)
    ok = backend.render_pyx()
    print("pyx-model: %s" % ("rendered %s" % sorted(backend.pyx_info()) if ok
                             else "UNAVAILABLE (%s)" % backend.pyx_error()))
    mod = importlib.import_module("checks.c01")
    n = 0
    for be in (["py", "pyx"] if ok else ["py"]):
        backend.use(be)
        task = {"backend": be, "N": 2, "regime": ["dense", 1, 2], "shard": 0,
                "nshards": 1, "menu": [0.0, 0.25]}
        with common.quiet():
            r = mod.run_task(task)
        n += r.states
        if r.viol:
            print("selftest: C01 reports %s on the 2-tick lattice (%s)" % (sorted(r.viol), be))
    print("selftest ok: %d states explored" % n)
    return 0


def main(argv=None):
    ap = argparse.ArgumentParser(prog="check")
    ap.add_argument("check_id")
    ap.add_argument("--tier", default=os.environ.get("VERIF_TIER") or "quick",
                    choices=["quick", "thorough"])
    ap.add_argument("--replay")
    ap.add_argument("--json", action="store_true")
    ap.add_argument("--repo", default=os.environ.get("VERIF_REPO", "/repo"))
    ap.add_argument("--jobs", type=int,
                    default=int(os.environ.get("VERIF_JOBS", "0")) or (os.cpu_count() or 4))
    a = ap.parse_args(argv)
    repo = os.path.abspath(a.repo)
    os.environ["VERIF_REPO"] = repo
    common.REPO = repo
    os.environ.setdefault("PYTHONHASHSEED", "0")
    cid = a.check_id.upper()
    if cid == "SELFTEST":
        return selftest(repo)
    if a.replay:
        return run_replay(cid, a.replay, repo, a.json)
    return run_check(cid, a.tier, repo, a.jobs, common.SEED)
