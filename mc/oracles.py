"""Reference models (DESIGN 2.5), written from the property statements.

All models are global and non-incremental (no cursors, no merge scan) and work
in exact arithmetic: inputs are converted to integers (times * SCALE, which is
exact for the dyadic lattice) or Fractions; only the final quotient is rounded.
"""
from fractions import Fraction

SCALE = 256


def ex(v):
    """float -> exact scaled number (int when possible, else Fraction)."""
    f = v * SCALE
    if f == int(f) and abs(f) < 2 ** 52:
        return int(f)
    return Fraction(v) * SCALE


def exl(vs):
    return [ex(v) for v in vs]


def q(num, den):
    """exact quotient -> float (one rounding)."""
    if den == 0:
        return float("nan")
    return float(Fraction(num) / Fraction(den))


def non_empty(sp, ts, te):
    """auxiliary edge spikes for a train without spikes (SpikeTrain.py)."""
    return list(sp) if len(sp) > 0 else [ts, te]


def breakpoints(trains, ts, te):
    """the two edges plus every distinct spike time strictly inside."""
    inner = sorted(set(s for sp in trains for s in sp if ts < s < te))
    return [ts] + inner + [te]


# ----------------------------------------------------------------------------
# ISI
# ----------------------------------------------------------------------------
def isi_len2(sp, t2, ts, te):
    """2 * length of the ISI of train `sp` containing time t2/2 (t2/2 is never a
    spike time).  Empty train: the whole recording."""
    n = len(sp)
    if n == 0:
        return 2 * (te - ts)
    prev = None
    nxt = None
    for s in sp:
        if 2 * s <= t2:
            prev = s
        elif nxt is None:
            nxt = s
    if prev is not None and nxt is not None:
        return 2 * (nxt - prev)
    if prev is None:
        d = sp[0] - ts
        return 2 * (max(d, sp[1] - sp[0]) if n > 1 else d)
    d = te - sp[-1]
    return 2 * (max(d, sp[-1] - sp[-2]) if n > 1 else d)


def isi_profile(sp1, sp2, ts, te, mrts=0):
    """-> (x, y) with exact x and float y."""
    x = breakpoints([sp1, sp2], ts, te)
    y = []
    for a, b in zip(x[:-1], x[1:]):
        v1 = isi_len2(sp1, a + b, ts, te)
        v2 = isi_len2(sp2, a + b, ts, te)
        y.append(q(abs(v1 - v2), max(v1, v2, 2 * mrts)))
    return x, y


def pwc_average(x, yfr, a=None, b=None):
    """exact average of a piecewise constant function given as Fractions"""
    if a is None:
        a, b = x[0], x[-1]
    tot = Fraction(0)
    for lo, hi, v in zip(x[:-1], x[1:], yfr):
        l, h = max(lo, a), min(hi, b)
        if h > l:
            tot += Fraction(v) * (h - l)
    return tot / (b - a)


def isi_profile_exact(sp1, sp2, ts, te, mrts=0):
    x = breakpoints([sp1, sp2], ts, te)
    y = []
    for a, b in zip(x[:-1], x[1:]):
        v1 = isi_len2(sp1, a + b, ts, te)
        v2 = isi_len2(sp2, a + b, ts, te)
        y.append(Fraction(abs(v1 - v2), 1) / max(v1, v2, 2 * mrts))
    return x, y


# ----------------------------------------------------------------------------
# SPIKE
# ----------------------------------------------------------------------------
def extended(sp, ts, te):
    """spikes plus the two auxiliary spikes mirrored outside the edges."""
    n = len(sp)
    if n > 1:
        a0 = min(ts, 2 * sp[0] - sp[1])
        a1 = max(te, 2 * sp[-1] - sp[-2])
    else:
        a0, a1 = ts, te
    return [a0] + list(sp) + [a1]


def nearest(s, ext):
    return min(abs(s - e) for e in ext)


def _train_state(sp, other_ext, t2, ts, te):
    """state of one train on the elementary interval containing t2/2:
    returns (isi, f) where f(t) -> the train's (un-normalised) contribution."""
    n = len(sp)
    prev = None
    nxt = None
    for s in sp:
        if 2 * s <= t2:
            prev = s
        elif nxt is None:
            nxt = s
    if prev is not None and nxt is not None:
        dP = nearest(prev, other_ext)
        dF = nearest(nxt, other_ext)
        isi = nxt - prev
        return isi, (lambda t: Fraction(dP * (nxt - t) + dF * (t - prev), isi))
    if prev is None:
        d = sp[0] - ts
        isi = max(d, sp[1] - sp[0]) if n > 1 else d
        c = nearest(sp[0], other_ext)
        return isi, (lambda t: Fraction(c))
    d = te - sp[-1]
    isi = max(d, sp[-1] - sp[-2]) if n > 1 else d
    c = nearest(sp[-1], other_ext)
    return isi, (lambda t: Fraction(c))


def spike_value(isi1, isi2, s1, s2, mrts, ri):
    mean = Fraction(isi1 + isi2, 2)
    lim = max(Fraction(mrts), mean)
    if ri:
        return Fraction(s1 + s2, 2) / lim
    return Fraction(s1 * isi2 + s2 * isi1, 2) / (mean * lim)


def spike_profile_exact(sp1, sp2, ts, te, mrts=0, ri=False):
    """-> (x, y1, y2) exact Fractions; y1[k] = right limit at x[k],
    y2[k] = left limit at x[k+1].  Trains must be non-empty (use non_empty)."""
    x = breakpoints([sp1, sp2], ts, te)
    e1 = extended(sp1, ts, te)
    e2 = extended(sp2, ts, te)
    y1, y2 = [], []
    for a, b in zip(x[:-1], x[1:]):
        i1, f1 = _train_state(sp1, e2, a + b, ts, te)
        i2, f2 = _train_state(sp2, e1, a + b, ts, te)
        y1.append(spike_value(i1, i2, f1(a), f2(a), mrts, ri))
        y2.append(spike_value(i1, i2, f1(b), f2(b), mrts, ri))
    return x, y1, y2


def pwl_average(x, y1, y2, a=None, b=None):
    if a is None:
        a, b = x[0], x[-1]
    tot = Fraction(0)
    for lo, hi, v1, v2 in zip(x[:-1], x[1:], y1, y2):
        l, h = max(lo, a), min(hi, b)
        if h > l:
            vl = v1 + (v2 - v1) * Fraction(l - lo, hi - lo)
            vh = v1 + (v2 - v1) * Fraction(h - lo, hi - lo)
            tot += (vl + vh) / 2 * (h - l)
    return tot / (b - a)


# ----------------------------------------------------------------------------
# coincidences (SPIKE-Sync, order, directionality, filter)
# ----------------------------------------------------------------------------
def _interp(a, b, t):
    """documented thresholded interpolation: min(a,b) for small t, b for big t,
    t in between."""
    m = min(a, b)
    if t < m:
        return m
    if t > b:
        return b
    return t


def window4(A, i, B, j, ts, te, max_tau, mrts):
    """4 * coincidence window of the pair (A[i], B[j]), A[i] != B[j]."""
    T = te - ts
    default = T
    if max_tau > 0:
        default = min(T, 2 * max_tau)
    pa = A[i] - A[i - 1] if i > 0 else default
    fa = A[i + 1] - A[i] if i < len(A) - 1 else default
    pb = B[j] - B[j - 1] if j > 0 else default
    fb = B[j + 1] - B[j] if j < len(B) - 1 else default
    if A[i] < B[j]:
        pL, fL, pF, fF = pa, fa, pb, fb
    else:
        pL, fL, pF, fF = pb, fb, pa, fa
    sL = _interp(2 * pL, 2 * fL, mrts)     # leader: towards its future ISI
    sF = _interp(2 * fF, 2 * pF, mrts)     # follower: towards its past ISI
    tau4 = min(sL, sF)
    if max_tau > 0:
        tau4 = min(tau4, 4 * max_tau)      # C16: max_tau bounds the window
    return tau4


def coincidences(A, B, ts, te, max_tau=0, mrts=0):
    """all coincident pairs (i, j) with A[i] != B[j], by looking at all |A|*|B|
    pairs; also the simultaneous pairs.  Asserts that coincidence is one-to-one
    (an oracle self-check: a failure here is an oracle bug, not a violation)."""
    pairs = []
    simult = []
    for i, a in enumerate(A):
        for j, b in enumerate(B):
            if a == b:
                simult.append((i, j))
            elif 4 * abs(a - b) < window4(A, i, B, j, ts, te, max_tau, mrts):
                pairs.append((i, j))
    ia = [i for i, _ in pairs] + [i for i, _ in simult]
    jb = [j for _, j in pairs] + [j for _, j in simult]
    assert len(set(ia)) == len(ia) and len(set(jb)) == len(jb), \
        "oracle self-check failed: coincidence not one-to-one"
    return pairs, simult


def sync_profile(A, B, ts, te, max_tau=0, mrts=0):
    """-> (x, y, mp) of the interior entries (one per distinct spike time)."""
    pairs, simult = coincidences(A, B, ts, te, max_tau, mrts)
    ca = set(i for i, _ in pairs)
    cb = set(j for _, j in pairs)
    sa = set(i for i, _ in simult)
    ev = {}
    for i, a in enumerate(A):
        if i in sa:
            ev[a] = (2, 2)
        else:
            ev[a] = (1 if i in ca else 0, 1)
    for j, b in enumerate(B):
        if b not in ev or ev[b][1] != 2:
            if b in ev:
                raise AssertionError("oracle: duplicate time")
            ev[b] = (1 if j in cb else 0, 1)
    xs = sorted(ev)
    return xs, [ev[t][0] for t in xs], [ev[t][1] for t in xs]


def indicator(A, B, ts, te, max_tau=0, mrts=0):
    """per-spike coincidence indicator of A's spikes w.r.t. B (used by the
    filter): 1 when coincident or simultaneous with a spike of B."""
    pairs, simult = coincidences(A, B, ts, te, max_tau, mrts)
    c = [0] * len(A)
    for i, _ in pairs:
        c[i] = 1
    for i, _ in simult:
        c[i] = 1
    return c


def order_profile(A, B, ts, te, max_tau=0, mrts=0):
    """-> (x, y, mp) interior entries of the spike-train-order profile."""
    pairs, simult = coincidences(A, B, ts, te, max_tau, mrts)
    ev = {}
    for a in A:
        ev[a] = [0, 1]
    for b in B:
        if b in ev:
            ev[b] = [0, 2]
        else:
            ev[b] = [0, 1]
    for i, j in pairs:
        v = 1 if A[i] < B[j] else -1
        ev[A[i]][0] = v
        ev[B[j]][0] = v
    xs = sorted(ev)
    return xs, [ev[t][0] for t in xs], [ev[t][1] for t in xs]


def directionality(A, B, ts, te, max_tau=0, mrts=0):
    """-> (d1, d2): +1 for a spike that leads its partner, -1 if it follows."""
    pairs, simult = coincidences(A, B, ts, te, max_tau, mrts)
    d1 = [0] * len(A)
    d2 = [0] * len(B)
    for i, j in pairs:
        if A[i] < B[j]:
            d1[i], d2[j] = 1, -1
        else:
            d1[i], d2[j] = -1, 1
    return d1, d2


# ----------------------------------------------------------------------------
# automatic threshold
# ----------------------------------------------------------------------------
def isi_lengths_pool(trains, ts, te):
    """pooled ISI lengths with the edge rules of the C15 statement: all
    inter-spike intervals; the interval before the first / after the last spike is
    the larger of the edge distance and the neighbouring interval (just the edge
    distance for a one-spike train); no interval where a spike sits on the edge;
    an empty train contributes the recording length."""
    pool = []
    for sp in trains:
        n = len(sp)
        if n == 0:
            pool.append(te - ts)
            continue
        inner = [sp[k + 1] - sp[k] for k in range(n - 1)]
        if sp[0] > ts:
            pool.append(max(sp[0] - ts, inner[0]) if n > 1 else sp[0] - ts)
        pool.extend(inner)
        if sp[-1] < te:
            pool.append(max(te - sp[-1], inner[-1]) if n > 1 else te - sp[-1])
    return pool
