"""pyx-model: mechanical rendering of PySpike's .pyx sources into executable Python.

Cython is not installed in this sandbox, so the compiled half of the code base
cannot be built.  This module reads the .pyx files of the working tree *on every
run* and renders them by a strict, whitelist-based source-to-source pass into
Python that keeps the C semantics that matter for the properties:

  * C double  = numpy.float64 (x/0.0 -> inf/nan under cdivision, no exception)
  * C int     = Python int (non-integral values are a model error)
  * double[:] = MemView: dtype/ndim checked on acquisition exactly like
                Cython's buffer acquisition; bounds- and sign-checked indexing
                when the file says boundscheck=False / wraparound=False (an
                out-of-range index is undefined behaviour in the compiled code
                and raises ModelUB); extent-checked slice assignment
  * fabs/fmax/fmin with C99 NaN rules
  * np.empty / np.empty_like return NaN-filled arrays, so that reading
    uninitialised memory is visible deterministically

Anything outside the whitelist raises RenderError (never a violation).
"""
import ast
import os
import re
import sys
import types
import math

import numpy as np

F = np.float64


class RenderError(Exception):
    """The .pyx source uses a construct the renderer does not model."""


class ModelUB(Exception):
    """The compiled code would run into undefined behaviour here."""


# --------------------------------------------------------------------------
# C semantics
# --------------------------------------------------------------------------
def c_double(v):
    if isinstance(v, MemView):
        raise TypeError("a float is required (got memoryview)")
    if v is None or isinstance(v, (str, bytes, list, tuple, dict)):
        raise TypeError("must be real number, not %s" % type(v).__name__)
    if isinstance(v, np.ndarray):
        if v.ndim == 0 or v.size == 1:
            return F(v.reshape(-1)[0])
        raise TypeError("only size-1 arrays can be converted to Python scalars")
    return F(v)


def c_int(v):
    if isinstance(v, (bool, np.bool_)):
        return int(v)
    if isinstance(v, (int, np.integer)):
        return int(v)
    if isinstance(v, (float, np.floating)):
        if float(v).is_integer():
            return int(v)
        raise TypeError("an integer is required (got non-integral %r)" % (v,))
    raise TypeError("an integer is required (got %s)" % type(v).__name__)


def c_bint(v):
    return 1 if v else 0


def fabs(a):
    return F(abs(F(a)))


def fmax(a, b):
    a = F(a)
    b = F(b)
    if a != a:
        return b
    if b != b:
        return a
    return a if a >= b else b


def fmin(a, b):
    a = F(a)
    b = F(b)
    if a != a:
        return b
    if b != b:
        return a
    return a if a <= b else b


def c_sqrt(a):
    a = F(a)
    with np.errstate(all="ignore"):
        return np.sqrt(a)


def c_exp(a):
    with np.errstate(all="ignore"):
        return np.exp(F(a))


LIBC = {"fabs": fabs, "fmax": fmax, "fmin": fmin, "sqrt": c_sqrt,
        "exp": c_exp}


def c_div(a, b):
    """'/' under cdivision=True, language_level=3 (true division in C)."""
    if isinstance(a, (np.ndarray, MemView)) or isinstance(b, (np.ndarray, MemView)):
        return a / b
    with np.errstate(all="ignore"):
        return F(a) / F(b)


def py_div(a, b):
    """'/' with cdivision=False: Cython raises ZeroDivisionError."""
    if isinstance(a, (np.ndarray, MemView)) or isinstance(b, (np.ndarray, MemView)):
        return a / b
    if b == 0:
        raise ZeroDivisionError("float division")
    with np.errstate(all="ignore"):
        return F(a) / F(b)


class MemView(object):
    """Model of a Cython typed memoryview double[:]."""
    __slots__ = ("a", "strict")

    def __init__(self, arr, strict):
        self.a = arr
        self.strict = strict

    def __len__(self):
        return self.a.shape[0]

    @property
    def shape(self):
        return self.a.shape

    def __array__(self, dtype=None, copy=None):
        if dtype is not None and dtype != self.a.dtype:
            return self.a.astype(dtype)
        return self.a

    def _idx(self, i):
        if isinstance(i, (bool, np.bool_)) or not isinstance(i, (int, np.integer)):
            raise TypeError("memoryview index must be an integer, got %r" % (i,))
        i = int(i)
        n = self.a.shape[0]
        if self.strict:
            if i < 0 or i >= n:
                raise ModelUB("memoryview index %d out of range [0,%d) with "
                              "boundscheck=False/wraparound=False" % (i, n))
        else:
            if i < -n or i >= n:
                raise IndexError("Out of bounds on buffer access (axis 0)")
        return i

    def _slice(self, s):
        if s.step not in (None, 1):
            raise RenderError("strided memoryview slices are not modelled")
        for v in (s.start, s.stop):
            if v is not None:
                if not isinstance(v, (int, np.integer)):
                    raise TypeError("slice indices must be integers")
                if self.strict and v < 0:
                    raise ModelUB("negative slice bound %d with wraparound=False" % v)
        return slice(None if s.start is None else int(s.start),
                     None if s.stop is None else int(s.stop))

    def __getitem__(self, i):
        if isinstance(i, slice):
            return MemView(self.a[self._slice(i)], self.strict)
        return self.a[self._idx(i)]

    def __setitem__(self, i, v):
        if isinstance(i, slice):
            dst = self.a[self._slice(i)]
            if isinstance(v, MemView):
                src = v.a
            elif isinstance(v, np.ndarray):
                src = acquire(v, self.strict).a
            else:
                dst[...] = c_double(v)
                return
            if src.shape != dst.shape:
                raise ValueError("Memoryview has different extents in "
                                 "dimension 0 (got %d and %d)"
                                 % (dst.shape[0], src.shape[0]))
            dst[...] = src
            return
        self.a[self._idx(i)] = c_double(v)


def acquire(v, strict):
    """Model of buffer acquisition for a `double[:]` variable."""
    if isinstance(v, MemView):
        return v
    if not isinstance(v, np.ndarray):
        # lists, tuples, SpikeTrain objects ... do not export a buffer
        try:
            memoryview(v)
        except TypeError:
            raise TypeError("a bytes-like object is required, not '%s'"
                            % type(v).__name__)
        v = np.asarray(v)
    if v.ndim != 1:
        raise ValueError("Buffer has wrong number of dimensions "
                         "(expected 1, got %d)" % v.ndim)
    if v.dtype != np.float64:
        raise ValueError("Buffer dtype mismatch, expected 'double' but got %r"
                         % str(v.dtype))
    if not v.flags.writeable:
        raise ValueError("buffer source array is read-only")
    return MemView(v, strict)


class _NP(object):
    """numpy proxy: uninitialised memory is NaN."""

    def __getattr__(self, name):
        return getattr(np, name)

    @staticmethod
    def empty(shape, dtype=float, **kw):
        a = np.empty(shape, dtype=dtype, **kw)
        if a.dtype.kind == "f":
            a.fill(np.nan)
        return a

    @staticmethod
    def empty_like(x, dtype=None, **kw):
        if isinstance(x, MemView):
            x = x.a
        a = np.empty_like(x, dtype=dtype, **kw)
        if a.dtype.kind == "f":
            a.fill(np.nan)
        return a

    @staticmethod
    def asarray(x, *a, **kw):
        if isinstance(x, MemView):
            x = x.a
        return np.asarray(x, *a, **kw)

    @staticmethod
    def array(x, *a, **kw):
        if isinstance(x, MemView):
            x = x.a
        return np.array(x, *a, **kw)


# --------------------------------------------------------------------------
# phase A: text -> annotated Python
# --------------------------------------------------------------------------
_BASE = r"(?:unsigned\s+)?(?:double|float|int|long|short|bint|Py_ssize_t|size_t|object)"
_TYPE = _BASE + r"(?:\s*\[\s*:{1,2}\s*(?:1)?\s*\])?"
_TYPE_RE = re.compile(r"^\s*(" + _TYPE + r")\s+(\w+)\s*$")
_FUNC_RE = re.compile(r"^(\s*)(def|cdef|cpdef)\s+(?:inline\s+)?(?:(" + _TYPE +
                      r")\s+)?(\w+)\s*\(")
_CDEF_VAR_RE = re.compile(r"^(\s*)cdef\s+(" + _TYPE + r")\s+(.*)$")
_TAIL_RE = re.compile(r"^\s*(?:nogil)?\s*(?:except\s*[^:]*)?\s*:\s*$")


def _strip_comment(line):
    out = []
    q = None
    i = 0
    while i < len(line):
        ch = line[i]
        if q:
            out.append(ch)
            if ch == "\\" and i + 1 < len(line):
                out.append(line[i + 1])
                i += 1
            elif ch == q:
                q = None
        else:
            if ch in "'\"":
                q = ch
                out.append(ch)
            elif ch == "#":
                break
            else:
                out.append(ch)
        i += 1
    return "".join(out).rstrip()


def _split_top(s, sep=","):
    parts, depth, cur = [], 0, []
    for ch in s:
        if ch in "([{":
            depth += 1
        elif ch in ")]}":
            depth -= 1
        if ch == sep and depth == 0:
            parts.append("".join(cur))
            cur = []
        else:
            cur.append(ch)
    if "".join(cur).strip() or parts:
        parts.append("".join(cur))
    return parts


def _norm_type(t):
    t = re.sub(r"\s+", " ", t.strip())
    if "[" in t:
        base = t.split("[")[0].strip()
        if base != "double":
            raise RenderError("memoryview of %r not modelled" % base)
        return "double[:]"
    if t.startswith("unsigned "):
        t = t[len("unsigned "):]
    if t in ("int", "long", "short", "Py_ssize_t", "size_t"):
        return "int"
    if t == "double":
        return "double"
    if t == "bint":
        return "bint"
    if t == "object":
        return "object"
    raise RenderError("C type %r not modelled" % t)


def _render_arg(arg):
    arg = arg.strip()
    if not arg:
        return arg
    if arg.startswith("*"):
        return arg
    default = None
    parts = _split_top(arg, "=")
    if len(parts) > 1:
        arg, default = parts[0].strip(), "=".join(parts[1:]).strip()
    m = _TYPE_RE.match(arg)
    mnd = re.match(r"^(?:np|numpy)\.ndarray(?:\s*\[[^\]]*\])?\s+(\w+)$", arg)
    if mnd:
        out = mnd.group(1)                      # buffer-typed ndarray argument: plain object
    elif m:
        out = '%s: "%s"' % (m.group(2), _norm_type(m.group(1)))
    elif re.match(r"^\w+$", arg):
        out = arg
    else:
        raise RenderError("cannot parse argument %r" % arg)
    if default is not None:
        out += " = " + default
    return out


def _phase_a(text, fname):
    lines = text.split("\n")
    directives = {"boundscheck": True, "wraparound": True, "cdivision": False}
    # header directives: only comment lines before the first code line
    for ln in lines:
        s = ln.strip()
        if not s:
            continue
        if not s.startswith("#"):
            break
        m = re.match(r"^#\s*cython\s*:\s*(\w+)\s*=\s*(\w+)\s*$", s)
        if m and m.group(1) in directives:
            directives[m.group(1)] = (m.group(2) == "True")
    out = []
    libc_names = []
    i = 0
    in_doc = None
    while i < len(lines):
        raw = lines[i]
        # pass module/function docstrings through untouched
        if in_doc:
            out.append(raw)
            if in_doc in raw:
                in_doc = None
            i += 1
            continue
        st = raw.strip()
        for q in ('"""', "'''"):
            if st.startswith(q):
                rest = st[3:]
                if q not in rest:
                    in_doc = q
                break
        if in_doc or st.startswith('"""') or st.startswith("'''"):
            out.append(raw)
            i += 1
            continue
        code = _strip_comment(raw)
        s = code.strip()
        indent = code[:len(code) - len(code.lstrip())]
        if not s:
            out.append("")
            i += 1
            continue
        # cimports
        if re.match(r"^cimport\s+", s):
            out.append(indent + "pass")
            i += 1
            continue
        m = re.match(r"^from\s+([\w\.]+)\s+cimport\s+(.+)$", s)
        if m:
            mod, names = m.group(1), [n.strip() for n in m.group(2).split(",")]
            if mod.startswith("libc."):
                for n in names:
                    if n not in LIBC:
                        raise RenderError("libc function %r not modelled" % n)
                    libc_names.append(n)
                out.append(indent + "pass")
            else:
                out.append(indent + "from %s import %s" % (mod, ", ".join(names)))
            i += 1
            continue
        if re.match(r"^ctypedef\s+", s):
            out.append(indent + "pass")
            i += 1
            continue
        if re.match(r"^(cdef\s+)?(extern|struct|enum|class)\b", s) or s == "cdef:":
            raise RenderError("%s:%d: construct %r not modelled" % (fname, i + 1, s))
        if re.search(r"<\s*" + _BASE + r"\s*\**\s*>", s):
            raise RenderError("%s:%d: C casts are not modelled" % (fname, i + 1))
        # directive decorators (@cython.boundscheck(False) ...): dropped; the model keeps the
        # file-level setting, which is at least as strict about out-of-range indices
        if re.match(r"^@\s*cython\.\w+\(.*\)\s*$", s):
            out.append(indent + "pass" if False else "")
            i += 1
            continue
        # with nogil / gil
        m = re.match(r"^with\s+(nogil|gil)\s*:\s*$", s)
        if m:
            out.append(indent + "if True:")
            i += 1
            continue
        # function headers
        m = _FUNC_RE.match(code)
        if m and (m.group(2) != "def" or True):
            kind, rtype, name = m.group(2), m.group(3), m.group(4)
            # collect until the parenthesis closes
            buf = code[m.end():]
            depth = 1
            j = i
            args = []
            tail = None
            while True:
                k = 0
                while k < len(buf):
                    ch = buf[k]
                    if ch in "([{":
                        depth += 1
                    elif ch in ")]}":
                        depth -= 1
                        if depth == 0:
                            args.append(buf[:k])
                            tail = buf[k + 1:]
                            break
                    k += 1
                if tail is not None:
                    break
                args.append(buf)
                j += 1
                if j >= len(lines):
                    raise RenderError("%s:%d: unterminated signature" % (fname, i + 1))
                buf = " " + _strip_comment(lines[j])
            if not _TAIL_RE.match(tail):
                raise RenderError("%s:%d: cannot parse signature tail %r"
                                  % (fname, i + 1, tail))
            arglist = [_render_arg(a) for a in _split_top(" ".join(args))]
            hdr = "%sdef %s(%s)" % (m.group(1), name, ", ".join(a for a in arglist if a))
            if kind != "def":
                hdr += ' -> "%s"' % (_norm_type(rtype) if rtype else "object")
            elif rtype:
                raise RenderError("%s:%d: def with C return type" % (fname, i + 1))
            out.append(hdr + ":")
            # keep line numbers aligned
            out.extend([""] * (j - i))
            i = j + 1
            continue
        # cdef variable declarations
        m = _CDEF_VAR_RE.match(code)
        if m:
            # join continuation lines (open brackets or trailing backslash)
            j = i
            full = m.group(3)
            while full.rstrip().endswith("\\") or \
                    (full.count("(") + full.count("[")) > (full.count(")") + full.count("]")):
                j += 1
                full = full.rstrip().rstrip("\\") + " " + _strip_comment(lines[j]).strip()
            typ = _norm_type(m.group(2))
            stmts = []
            for d in _split_top(full):
                d = d.strip()
                mm = re.match(r"^(\w+)\s*(?:=\s*(.+))?$", d, re.S)
                if not mm:
                    raise RenderError("%s:%d: cannot parse declaration %r"
                                      % (fname, i + 1, d))
                if mm.group(2) is None:
                    stmts.append('%s: "%s"' % (mm.group(1), typ))
                else:
                    stmts.append('%s: "%s" = %s' % (mm.group(1), typ, mm.group(2)))
            out.append(m.group(1) + "; ".join(stmts))
            out.extend([""] * (j - i))
            i = j + 1
            continue
        if re.match(r"^c?p?def\b", s) and not s.startswith("def "):
            raise RenderError("%s:%d: cannot parse %r" % (fname, i + 1, s))
        code = re.sub(r"\bxrange\s*\(", "range(", code)
        out.append(code)
        i += 1
    return "\n".join(out) + "\n", directives, libc_names


# --------------------------------------------------------------------------
# phase B: AST transformation (declared-type coercions, C division)
# --------------------------------------------------------------------------
def _call(fname, *args):
    return ast.Call(func=ast.Name(id=fname, ctx=ast.Load()), args=list(args),
                    keywords=[])


class _FuncXf(ast.NodeTransformer):
    def __init__(self, decl, rtype, directives):
        self.decl = decl
        self.rtype = rtype
        self.d = directives

    def coerce(self, typ, node):
        if typ == "double":
            return _call("_c_double", node)
        if typ == "int":
            return _call("_c_int", node)
        if typ == "bint":
            return _call("_c_bint", node)
        if typ == "double[:]":
            strict = not (self.d["boundscheck"] or self.d["wraparound"])
            return _call("_c_acquire", node, ast.Constant(value=strict))
        return node

    # nested defs keep their own scope: handled by the module transformer
    def visit_FunctionDef(self, node):
        return _render_function(node, self.d)

    def visit_BinOp(self, node):
        self.generic_visit(node)
        if isinstance(node.op, ast.Div):
            return _call("_c_div" if self.d["cdivision"] else "_py_div",
                         node.left, node.right)
        return node

    def visit_AnnAssign(self, node):
        self.generic_visit(node)
        if not isinstance(node.target, ast.Name):
            return node
        typ = self.decl.get(node.target.id)
        if node.value is None:
            return ast.Pass()
        return ast.Assign(targets=[ast.Name(id=node.target.id, ctx=ast.Store())],
                          value=self.coerce(typ, node.value))

    def visit_Assign(self, node):
        self.generic_visit(node)
        post = []
        if len(node.targets) == 1:
            t = node.targets[0]
            if isinstance(t, ast.Name) and t.id in self.decl:
                node.value = self.coerce(self.decl[t.id], node.value)
                return node
            if isinstance(t, (ast.Tuple, ast.List)):
                if isinstance(node.value, (ast.Tuple, ast.List)) and \
                        len(node.value.elts) == len(t.elts):
                    for k, e in enumerate(t.elts):
                        if isinstance(e, ast.Name) and e.id in self.decl:
                            node.value.elts[k] = self.coerce(self.decl[e.id],
                                                             node.value.elts[k])
                    return node
                for e in t.elts:
                    if isinstance(e, ast.Name) and e.id in self.decl:
                        post.append(ast.Assign(
                            targets=[ast.Name(id=e.id, ctx=ast.Store())],
                            value=self.coerce(self.decl[e.id],
                                              ast.Name(id=e.id, ctx=ast.Load()))))
                return [node] + post
            return node
        for t in node.targets:
            if isinstance(t, ast.Name) and t.id in self.decl:
                post.append(ast.Assign(
                    targets=[ast.Name(id=t.id, ctx=ast.Store())],
                    value=self.coerce(self.decl[t.id],
                                      ast.Name(id=t.id, ctx=ast.Load()))))
        return [node] + post

    def visit_AugAssign(self, node):
        self.generic_visit(node)
        t = node.target
        if isinstance(t, ast.Name) and t.id in self.decl:
            if isinstance(node.op, ast.Div):
                val = _call("_c_div" if self.d["cdivision"] else "_py_div",
                            ast.Name(id=t.id, ctx=ast.Load()), node.value)
            else:
                val = ast.BinOp(left=ast.Name(id=t.id, ctx=ast.Load()),
                                op=node.op, right=node.value)
            return ast.Assign(targets=[ast.Name(id=t.id, ctx=ast.Store())],
                              value=self.coerce(self.decl[t.id], val))
        if isinstance(node.op, ast.Div):
            # x[i] /= v
            raise RenderError("in-place division on a non-declared target")
        return node

    def visit_For(self, node):
        self.generic_visit(node)
        names = []
        if isinstance(node.target, ast.Name):
            names = [node.target.id]
        elif isinstance(node.target, (ast.Tuple, ast.List)):
            names = [e.id for e in node.target.elts if isinstance(e, ast.Name)]
        pre = [ast.Assign(targets=[ast.Name(id=n, ctx=ast.Store())],
                          value=self.coerce(self.decl[n],
                                            ast.Name(id=n, ctx=ast.Load())))
               for n in names if n in self.decl]
        node.body = pre + node.body
        return node

    def visit_Return(self, node):
        self.generic_visit(node)
        if self.rtype and self.rtype != "object":
            if node.value is None:
                raise RenderError("bare return in typed cdef function")
            node.value = self.coerce(self.rtype, node.value)
        return node

    def visit_Global(self, node):
        raise RenderError("global statement not modelled")

    def visit_Lambda(self, node):
        raise RenderError("lambda not modelled")


def _collect_decls(node, decl):
    for ch in ast.iter_child_nodes(node):
        if isinstance(ch, (ast.FunctionDef, ast.ClassDef, ast.Lambda)):
            continue
        if isinstance(ch, ast.AnnAssign) and isinstance(ch.target, ast.Name) \
                and isinstance(ch.annotation, ast.Constant) \
                and isinstance(ch.annotation.value, str):
            decl[ch.target.id] = ch.annotation.value
        _collect_decls(ch, decl)


def _render_function(node, directives):
    decl = {}
    pre = []
    allargs = node.args.posonlyargs + node.args.args + node.args.kwonlyargs
    for a in allargs:
        if a.annotation is not None:
            if not (isinstance(a.annotation, ast.Constant) and
                    isinstance(a.annotation.value, str)):
                raise RenderError("unexpected annotation")
            decl[a.arg] = a.annotation.value
            a.annotation = None
    rtype = None
    if node.returns is not None:
        rtype = node.returns.value
        node.returns = None
    for st in node.body:
        _collect_decls(ast.Module(body=[st], type_ignores=[]), decl)
    xf = _FuncXf(decl, rtype, directives)
    for a in allargs:
        if a.arg in decl:
            pre.append(ast.Assign(
                targets=[ast.Name(id=a.arg, ctx=ast.Store())],
                value=xf.coerce(decl[a.arg], ast.Name(id=a.arg, ctx=ast.Load()))))
    body = []
    for st in node.body:
        r = xf.visit(st)
        if isinstance(r, list):
            body.extend(r)
        elif r is not None:
            body.append(r)
    # keep a leading docstring first
    if body and isinstance(body[0], ast.Expr) and \
            isinstance(getattr(body[0], "value", None), ast.Constant) and \
            isinstance(body[0].value.value, str):
        node.body = [body[0]] + pre + body[1:]
    else:
        node.body = pre + body
    if not node.body:
        node.body = [ast.Pass()]
    return node


class _ModuleXf(ast.NodeTransformer):
    def __init__(self, directives):
        self.d = directives

    def visit_FunctionDef(self, node):
        return _render_function(node, self.d)


def render_source(text, fname="<pyx>"):
    """Return (code object, directives, libc names) for one .pyx text."""
    py, directives, libc_names = _phase_a(text, fname)
    try:
        tree = ast.parse(py, filename=fname)
    except SyntaxError as e:
        raise RenderError("%s: not valid after phase A: %s (line %s: %r)"
                          % (fname, e.msg, e.lineno, (e.text or "").strip()))
    tree = _ModuleXf(directives).visit(tree)
    ast.fix_missing_locations(tree)
    return compile(tree, fname, "exec"), directives, libc_names


PYX_FILES = ["cython_get_tau", "cython_add", "cython_profiles",
             "cython_distances", "cython_directionality"]


def render_repo(repo):
    """Render the five kernel files of `repo`; returns {modname: module}.

    The modules are *not* installed in sys.modules here (see backend.py), but
    cross-module cimports are resolved among the rendered modules.
    """
    mods = {}
    info = {}
    base = os.path.join(repo, "pyspike", "cython")
    for name in PYX_FILES:
        path = os.path.join(base, name + ".pyx")
        with open(path) as f:
            text = f.read()
        code, directives, libc_names = render_source(text, path)
        full = "pyspike.cython." + name
        mod = types.ModuleType(full)
        mod.__file__ = path
        mod.__dict__.update({
            "_c_double": c_double, "_c_int": c_int, "_c_bint": c_bint,
            "_c_acquire": acquire, "_c_div": c_div, "_py_div": py_div,
            "__verif_pyx_model__": True,
        })
        for n in libc_names:
            mod.__dict__[n] = LIBC[n]
        mods[full] = (mod, code)
        info[name] = directives
    # execute in dependency order with a private import hook for the
    # inter-module cimports
    done = {}
    saved = {k: sys.modules.get(k, "__absent__") for k in mods}
    try:
        for full, (mod, code) in mods.items():
            sys.modules[full] = mod
        for full, (mod, code) in mods.items():
            exec(code, mod.__dict__)
            # numpy proxy: after exec, because the module does `import numpy as np`
            if "np" in mod.__dict__:
                mod.__dict__["np"] = _NP()
            done[full] = mod
    finally:
        for k, v in saved.items():
            if v == "__absent__":
                sys.modules.pop(k, None)
            else:
                sys.modules[k] = v
    return done, info
