"""Model-checking machinery for PySpike (see /verif/DESIGN.md)."""
