#!/bin/bash
# tools/all_checks_on_patch.sh <patch.diff> [tier]  - every quick check against one change
P="$1"; TIER="${2:-quick}"
W=$(mktemp -d /dev/shm/wt.XXXXXX); rmdir "$W"
git -C /repo worktree add --detach "$W" HEAD -q || exit 3
git -C "$W" apply "$P" || { echo "apply failed"; git -C /repo worktree remove --force "$W"; exit 3; }
det=""
for i in $(seq -w 1 20); do
  c=C$i
  out=$(cd /verif && VERIF_REPO="$W" ./check "$c" --tier "$TIER" 2>&1); r=$?
  [ $r -ne 0 ] && det="$det $c:$r"
done
git -C /repo worktree remove --force "$W"
echo "DETECTED-BY:$det"
