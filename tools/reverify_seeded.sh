#!/bin/bash
# tools/reverify_seeded.sh [tier]  - run the quick check of its property against every seeded
# change (scratch worktree of /repo HEAD + patch), print one line per change.
# Works from whatever copy of /verif it is started in (also a `vp run` snapshot).
ROOT="$(cd "$(dirname "$0")/.." && pwd)"
TIER="${1:-quick}"
ok=0; miss=0
for d in "$ROOT"/seeded/*/; do
  name=$(basename "$d"); id=${name%%-*}
  W=$(mktemp -d /dev/shm/wt.XXXXXX); rmdir "$W"
  git -C /repo worktree add --detach "$W" HEAD -q || { echo "$name worktree-failed"; continue; }
  if git -C "$W" apply "$d/patch.diff" 2>/dev/null; then
    out=$(cd "$ROOT" && VERIF_REPO="$W" ./check "$id" --tier "$TIER" 2>&1); rc=$?
    first=$(echo "$out" | grep -m1 "^  check=" | cut -c1-120)
    echo "$name exit=$rc $first"
    [ $rc -eq 1 ] && ok=$((ok+1)) || miss=$((miss+1))
  else
    echo "$name apply-failed"
  fi
  git -C /repo worktree remove --force "$W"
done
echo "SUMMARY detected=$ok not_detected=$miss"
