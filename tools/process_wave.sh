#!/bin/bash
# tools/process_wave.sh <wave> - confirm every change a sub-agent left in /tmp/mut/<wave> and run the
# checks of the properties it names (quick tier); stores each under /verif/seeded/<PROP>-<wave><k>/.
W="$1"; D=/tmp/mut/$W
for k in 1 2 3; do
  [ -f $D/patch$k.diff ] && [ -f $D/demo$k.py ] && [ -f $D/meta$k.json ] || continue
  ids=$(/venv/bin/python -c "
import json,sys
d=json.load(open('$D/meta$k.json'))
l=[d['property']]+[x for x in d.get('also_breaks',[]) if x!=d['property']]
print(' '.join(x[:3] for x in l))")
  main=${ids%% *}
  [ -n "${ONLY_MAIN:-}" ] && ids=$main
  echo "### $W/$k -> $main ($ids)"
  /verif/tools/confirm_mutant.sh $D $k $main-$W$k quick $ids
done
