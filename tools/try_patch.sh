#!/bin/bash
# tools/try_patch.sh <patch.diff|REVERT:<commit>> <tier> <check ids...>
# Applies the change to a scratch worktree of /repo's HEAD, runs the baseline
# test-suite there, then the given checks with VERIF_REPO=<scratch>; removes it.
set -u
P="$1"; TIER="$2"; shift 2
W=$(mktemp -d /dev/shm/wt.XXXXXX); rmdir "$W"
git -C /repo worktree add --detach "$W" HEAD -q || exit 3
if [[ "$P" == REVERT:* ]]; then
  git -C "$W" revert --no-commit "${P#REVERT:}" >/dev/null || { echo "revert failed"; git -C /repo worktree remove --force "$W"; exit 3; }
else
  git -C "$W" apply "$P" || { echo "apply failed"; git -C /repo worktree remove --force "$W"; exit 3; }
fi
if [ "${SKIP_TESTS:-0}" != 1 ]; then
  (cd "$W" && /venv/bin/python -m pytest -q -p no:cacheprovider 2>&1 | tail -1)
fi
rc=0
for c in "$@"; do
  out=$(cd /verif && VERIF_REPO="$W" ./check "$c" --tier "$TIER" 2>&1); r=$?
  echo "$out" | grep -E "^VIOLATION|^KNOWN|^HARNESS|^NOTE|^C[0-9]+ tier" | cut -c1-220 | head -8
  echo "== $c exit=$r"
  [ $r -ne 0 ] && rc=1
done
git -C /repo worktree remove --force "$W"
exit $rc
