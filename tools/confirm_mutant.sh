#!/bin/bash
# tools/confirm_mutant.sh <mutdir> <k> <name> <tier> <check ids...>
# Confirms a sub-agent's change k (tests still pass, demo fails with / passes without),
# runs the given checks against it, and stores it under /verif/seeded/<name>/.
set -u
D="$1"; K="$2"; NAME="$3"; TIER="$4"; shift 4
PATCH="$D/patch$K.diff"; DEMO="$D/demo$K.py"; META="$D/meta$K.json"
W=$(mktemp -d /dev/shm/wt.XXXXXX); rmdir "$W"
git -C /repo worktree add --detach "$W" HEAD -q || exit 3
cleanup() { git -C /repo worktree remove --force "$W"; }
(cd "$W" && timeout 600 /venv/bin/python "$DEMO" >/dev/null 2>&1); clean_rc=$?
git -C "$W" apply "$PATCH" || { echo "APPLY FAILED"; cleanup; exit 3; }
tests=$(cd "$W" && /venv/bin/python -m pytest -q -p no:cacheprovider 2>&1 | tail -1)
(cd "$W" && timeout 600 /venv/bin/python "$DEMO" >/tmp/demo_out.$$ 2>&1); mut_rc=$?
echo "tests: $tests | demo clean rc=$clean_rc mutated rc=$mut_rc"
res=""
for c in "$@"; do
  out=$(cd /verif && VERIF_REPO="$W" ./check "$c" --tier "$TIER" 2>&1); r=$?
  echo "$out" | grep -E "^VIOLATION|^KNOWN|^HARNESS|^NOTE" | cut -c1-200 | head -3
  echo "$out" | grep -E "^  check=" | cut -c1-200 | head -3
  echo "== $c exit=$r"
  res="$res $c:$r"
done
cleanup
mkdir -p /verif/seeded/$NAME
cp "$PATCH" /verif/seeded/$NAME/patch.diff; cp "$DEMO" /verif/seeded/$NAME/demo.py
/venv/bin/python - "$META" "$NAME" "$tests" "$clean_rc" "$mut_rc" "$TIER" "$res" <<'PY'
import json, sys
meta, name, tests, c, m, tier, res = sys.argv[1:8]
try:
    d = json.load(open(meta))
except Exception:
    d = {}
d["confirmed"] = {"tests_with_change": tests.strip(), "demo_rc_clean_tree": int(c),
                  "demo_rc_changed_tree": int(m),
                  "what_i_ran": "applied patch.diff to a scratch worktree of /repo HEAD; ran the baseline pytest command; ran demo.py on the clean and on the changed tree; ran the listed checks with VERIF_REPO=<scratch>",
                  "checks_%s" % tier: {x.split(':')[0]: ("detected" if x.split(':')[1] == "1" else "exit %s" % x.split(':')[1]) for x in res.split()}}
json.dump(d, open("/verif/seeded/%s/meta.json" % name, "w"), indent=1)
PY
rm -f /tmp/demo_out.$$
