#!/venv/bin/python
"""Regenerate MANIFEST.json from the check modules present in checks/."""
import importlib, json, os, sys
sys.dont_write_bytecode = True
ROOT = os.path.dirname(os.path.dirname(os.path.abspath(__file__)))
sys.path.insert(0, ROOT)
META = json.load(open(os.path.join(ROOT, "tools", "manifest_meta.json")))
props = [json.loads(l) for l in open(os.path.join(ROOT, "properties.jsonl"))]
checks, na = [], []
for p in props:
    pid = p["id"]
    path = os.path.join(ROOT, "checks", pid.lower() + ".py")
    m = META.get(pid)
    if os.path.exists(path) and m and m.get("claimed", True):
        checks.append({
            "property_id": pid,
            "quick_cmd": "./check %s --tier quick" % pid,
            "thorough_cmd": "./check %s --tier thorough" % pid,
            "evidence_file": "/verif/evidence/%s.json" % pid,
            "replay_cmd_template": "./check %s --replay {path}" % pid,
            "engine": m.get("engine", "recording-explorer"),
            "level_claimed": {"category": m.get("level", "model_checking"),
                              "text": m["text"], "design_ref": m.get("design_ref", "DESIGN.md section 3")},
            "level_note": m["note"],
            "technique": m["technique"],
        })
    else:
        na.append({"property_id": pid, "reason": (m or {}).get("na_reason", "check not built yet (work in progress); not claimed")})
man = {
    "version": 1,
    "setup_cmd": "./check SELFTEST",
    "hooks": {
        "guard": "PYSPIKE_VERIF",
        "enable": "no hooks: all observation points are public return values, public attributes and module attributes patched from the harness process (sys.modules, np.random.exponential); PYSPIKE_VERIF is reserved and unused",
        "baseline_off_cmd": "cd /repo && /venv/bin/python -m pytest -ra -q -p no:cacheprovider --timeout=900 --continue-on-collection-errors",
        "source_commits": [],
        "add_only": True,
    },
    "engines": META["_engines"],
    "checks": checks,
    "not_applicable": na,
    "notes": META["_notes"],
}
json.dump(man, open(os.path.join(ROOT, "MANIFEST.json"), "w"), indent=1)
print("claimed:", [c["property_id"] for c in checks]); print("not claimed:", [n["property_id"] for n in na])
