#!/venv/bin/python
"""Replace the seeded-change table in DESIGN.md (between the markers) by the current one."""
import subprocess, re
t = subprocess.run(['/verif/tools/mutant_table.py'], capture_output=True, text=True).stdout.strip()
p = '/verif/DESIGN.md'
s = open(p).read()
block = "<!-- MUTANT_TABLE_BEGIN -->\n" + t + "\n<!-- MUTANT_TABLE_END -->"
if '@@MUTANT_TABLE@@' in s:
    s = s.replace('@@MUTANT_TABLE@@', block)
else:
    s = re.sub(r"<!-- MUTANT_TABLE_BEGIN -->.*?<!-- MUTANT_TABLE_END -->", lambda m: block, s, flags=re.S)
open(p, 'w').write(s)
