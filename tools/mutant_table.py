#!/venv/bin/python
"""Print the markdown table of seeded changes (seeded/*/meta.json)."""
import json, glob, os, re
rows = []
for d in sorted(glob.glob('/verif/seeded/*')):
    m = json.load(open(os.path.join(d, 'meta.json')))
    name = os.path.basename(d)
    c = m.get('confirmed', {})
    det = []
    for k, v in c.items():
        if k.startswith('checks_'):
            det += ["%s %s (%s)" % (x, 'detects' if r == 'detected' else r, k[7:]) for x, r in v.items()]
    summ = re.sub(r'\s+', ' ', m.get('summary', ''))[:170]
    needs = re.sub(r'\s+', ' ', m.get('needs', ''))[:150]
    rows.append("| %s | %s | %s | %s | %s |" % (name, summ, needs, c.get('tests_with_change', '').replace(', 4 warnings', '').split(' in ')[0], '; '.join(det)))
print("| change | what was changed | needs | suite | result |")
print("|---|---|---|---|---|")
print("\n".join(rows))
