"""subst.py FILE  (reads a python literal list of (old, new) pairs from stdin)
Exact-string replacement that preserves CRLF line endings."""
import sys, ast
path = sys.argv[1]
pairs = ast.literal_eval(sys.stdin.read())
raw = open(path, newline='').read()
crlf = '\r\n' in raw
for old, new in pairs:
    if crlf:
        old = old.replace('\n', '\r\n'); new = new.replace('\n', '\r\n')
    assert raw.count(old) == 1, (raw.count(old), old[:60])
    raw = raw.replace(old, new)
open(path, 'w', newline='').write(raw)
